"""C14 - temperature values, units, limits and heater operation are consistent."""
import importlib
import math
import struct as pystruct
from fractions import Fraction

import packs
import translate
from common import Driver, DriverFailure

LEVEL = "proof"
MANIFEST = dict(
    text="Lean 4 theorems over exact rationals on definitions translated from accessor.py / heater.py on every run (the four "
         "conversion expressions with the branch on \"C\" and int() truncation, the unit symbols, MIN/MAX, temperature_unit/min_temp/"
         "max_temp and the current_operation ladder): presented value = raw/18 or (raw+320)/10; write(read raw) = raw for ALL raw : Nat "
         "and every unit string; any temperature lands strictly within one device step (and on the greatest device value below it from "
         "word 0 up); writing and reading preserve order (strictly, both ways); symbol/min/max follow the setting and both limit pairs "
         "name words 270..720; the ladder (flags arbitrate, else a flag that is on, else the temperatures) with its unit independence; "
         "glue to C02's Word write. float_bridge: for EVERY rounding function that is monotone with relative error <= 2^-52 (a parameter "
         "with hypotheses, not an axiom) the float path preserves order, keeps distinct 16-bit words strictly ordered and lands within "
         "one step + 1e-9. Exact read-back through CPython's real floats is NOT a theorem: it is closed by enumerating all 65 536 words "
         "x 2 units on the real accessor on every run (both write paths). Tie: translator + differential correspondence on the real "
         "GeckoTempStructAccessor (floats converted to exact Fractions, model rationals compared as num/den) and the real "
         "GeckoWaterHeater on stub spas of shipped cfg/log pairs. Session 4: heater states keep the user setpoint (SetpointG) on the other side of the current temperature than the regulated target (RealSetPointG), so a heater reading the wrong word shows in real_target_temperature and in the operation ladder. The unit setting flips while every stored word stays unchanged, on the same live heater. Session 5: one heater object living across a history of writes and reports against a spa that applies each command and reports the word back (the same temperature again, a value truncating to the held word, a unit change right after it, writes in the other unit): after every step the heater presents the stored word in the current unit. Round 14: the set point through the real client path with the spa's report held back (change of mind). Round 15: the BLOCKING client's heater - setpoint written and written back before the spa's report; both commands reach the spa and the value written last is read back.",
    note="Trusted: Lean kernel; the translator (harness/gen_c14.py over py2lean; float literal -> exact value of the double, float op -> "
         "fl(...)); the correspondence harness. Assumed in float_bridge only: rounding is monotone with relative error <= 2^-52 in the "
         "range used (no underflow/overflow). int -> double conversion of a stored word is exact (< 2^53). A flag that exists but is off "
         "while the other flag does not exist falls through to the temperatures (read as the code reads it).",
    technique="Lean 4 proofs over core Rat on source-translated arithmetic + exhaustive enumeration of the 16-bit float round trip + "
              "differential correspondence",
    design="5/C14",
)

REP = ("inyt-cfg-50", "inyt-log-50")          # representative pair for the enumeration (all temp items share one class)
HEATER_KEYS = ("TempUnits", "SetpointG", "DisplayedTempG", "RealSetPointG")


_VCOUNT = {}


def viol(ctx, key, inp, expected, observed):
    """ctx.violation, at most 25 per category (the prefix of the key): a broken conversion fails on 100 000+ inputs"""
    cat = key.split(":")[0]
    _VCOUNT[cat] = _VCOUNT.get(cat, 0) + 1
    ctx.hist("violations_by_category", cat)
    if _VCOUNT[cat] <= 25:
        ctx.violation(key, inp, expected, observed)


def run_coro(coro):
    try:
        coro.send(None)
    except StopIteration as e:
        return e.value
    raise RuntimeError("coroutine suspended unexpectedly")


def hexs(s):
    return s.encode("utf8").hex() or "-"


class Spa:
    """stub spa for one shipped cfg/log pair: real GeckoStructure / GeckoAsyncStructure, real accessors"""

    def __init__(self, cfg, log, drop=()):
        from geckolib.driver.spastruct import GeckoStructure
        from geckolib.driver.async_spastruct import GeckoAsyncStructure
        self.cfg, self.log = cfg, log
        mc = importlib.import_module("geckolib.driver.packs." + cfg)
        ml = importlib.import_module("geckolib.driver.packs." + log)
        self.captured, self.acaptured = [], []
        self.struct = GeckoStructure(lambda p, l, v: self.captured.append((p, l, v)))
        self.struct.build_accessors(mc.GeckoConfigStruct(self.struct), ml.GeckoLogStruct(self.struct))

        async def acap(p, l, v):
            self.acaptured.append((p, l, v))
        self.astruct = GeckoAsyncStructure(lambda p, l, v: None, acap)
        self.astruct.build_accessors(mc.GeckoConfigStruct(self.astruct), ml.GeckoLogStruct(self.astruct))
        for k in drop:
            self.struct.accessors.pop(k, None)
            self.astruct.accessors.pop(k, None)

    @property
    def accessors(self):
        return self.struct.accessors

    def set_block(self, b):
        self.struct.set_status_block(b)
        self.astruct.set_status_block(b)


class StubFacade:
    unique_id = "uid"
    name = "stub spa"

    def __init__(self, spa):
        self._spa = spa
        self.spa = spa


def poke(block, acc, raw):
    """store the raw field contents `raw` of an accessor into a block (plain byte arithmetic, independent of the write path)"""
    b = bytearray(block)
    if acc.length == 2:
        cur = (b[acc.pos] << 8) | b[acc.pos + 1]
    else:
        cur = b[acc.pos]
    if acc.bitpos is not None:
        cur = (cur & ~(acc.bitmask << acc.bitpos)) | ((raw & acc.bitmask) << acc.bitpos)
    else:
        cur = raw
    if acc.length == 2:
        b[acc.pos], b[acc.pos + 1] = cur >> 8, cur & 255
    else:
        b[acc.pos] = cur & 255
    return bytes(b)


def units_block(spa, units, base=None):
    """a block in which the TempUnits item reads `units` ("C", "F", or "Unknown" where the field can hold a third value)"""
    acc = spa.accessors["TempUnits"]
    base = base if base is not None else bytes(1024)
    if units in acc.items:
        return poke(base, acc, acc.items.index(units))
    cap = (acc.bitmask + 1) if acc.bitpos is not None else 256
    if cap > len(acc.items):
        return poke(base, acc, len(acc.items))
    return None


def nearest_double_ok(fr: Fraction, f) -> bool:
    """exact arithmetic: is the double `f` a nearest double to the rational `fr` (what a correctly rounded division returns)?"""
    if not isinstance(f, float) or math.isnan(f) or math.isinf(f):
        return False
    e = abs(Fraction(f) - fr)
    if e == 0:
        return True
    nb = math.nextafter(f, math.inf if fr > Fraction(f) else -math.inf)
    return e <= abs(Fraction(nb) - fr)


def exact_read(units, raw):
    """the statement, in exact arithmetic (independent of model and implementation)"""
    return Fraction(raw, 18) if units == "C" else Fraction(raw + 320, 10)


def step_of(units):
    return Fraction(1, 18) if units == "C" else Fraction(1, 10)


def impl_read(spa, tag, block):
    spa.set_block(block)
    try:
        return spa.accessors[tag].value
    except Exception as e:  # noqa
        return f"raised {type(e).__name__}: {e}"


def impl_write(spa, tag, block, v):
    """(sync newvalue | error text, async newvalue | error text)"""
    spa.set_block(block)
    spa.captured.clear()
    spa.acaptured.clear()
    try:
        spa.struct.accessors[tag].value = v
        w1 = spa.captured[-1][2]
        if spa.captured[-1][:2] != (spa.struct.accessors[tag].pos, 2):
            w1 = f"wrong-target {spa.captured[-1]}"
    except Exception as e:  # noqa
        w1 = f"raised {type(e).__name__}"
    try:
        run_coro(spa.astruct.accessors[tag].async_set_value(v))
        w2 = spa.acaptured[-1][2]
    except Exception as e:  # noqa
        w2 = f"raised {type(e).__name__}"
    return w1, w2


def find_writable_temp(spa):
    for k in ("SetpointG",):
        a = spa.accessors.get(k)
        if a is not None and type(a).__name__ == "GeckoTempStructAccessor" and a.read_write is not None:
            return k
    return None


# ----------------------------------------------------------------------------------------------------- enumeration
def enumerate_words(ctx, spa, tag, lines, expect):
    """ALL 65 536 words x 2 units on the real accessor: read, compare with the statement, write the value back (both paths)"""
    fails = 0
    for units in ("C", "F"):
        ub = units_block(spa, units)
        acc = spa.accessors[tag]
        prev = None
        for raw in range(65536):
            blk = ub[:acc.pos] + pystruct.pack(">H", raw) + ub[acc.pos + 2:]
            v = impl_read(spa, tag, blk)
            ok_val = nearest_double_ok(exact_read(units, raw), v)
            w1, w2 = impl_write(spa, tag, blk, v) if isinstance(v, float) else ("-", "-")
            lines.append(f"rw {hexs(units)} {raw}")
            expect.append(("rw", units, raw, v, w1, w2))
            ctx.count("evaluations")
            if not ok_val:
                fails += 1
                viol(ctx, f"value:{units}:{raw}", {"kind": "value", "units": units, "raw": raw},
                              f"the double nearest to {exact_read(units, raw)}", repr(v))
            if w1 != raw or w2 != raw:
                fails += 1
                viol(ctx, f"readback:{units}:{raw}", {"kind": "readback", "units": units, "raw": raw},
                              f"writing the presented value {v!r} stores {raw}", {"sync": w1, "async": w2})
            if prev is not None and isinstance(v, float) and isinstance(prev, float) and not prev < v:
                fails += 1
                viol(ctx, f"order-read:{units}:{raw}", {"kind": "order-read", "units": units, "raw": raw},
                              "strictly increasing presented values", [prev, v])
            prev = v
    return fails


# ----------------------------------------------------------------------------------------------------- decimal writes
def decimal_inputs(ctx):
    """(units, Fraction, python value to pass) - decimal temperatures in and around the allowed range + the whole word range"""
    rng = ctx.rng
    out = []

    def forms(units, num, den_pow):
        fr = Fraction(num, 10 ** den_pow)
        s = f"{num // 10 ** den_pow}.{num % 10 ** den_pow:0{den_pow}d}" if den_pow else str(num)
        out.append((units, fr, s))                # the string form ("37.5")
        out.append((units, fr, float(s)))         # the float the caller would pass
        if fr.denominator == 1:
            out.append((units, fr, int(fr)))
    res = 2 if ctx.quick else 3
    for units, lo, hi in (("C", 14, 41), ("F", 58, 105)):
        for n in range(lo * 10 ** res, hi * 10 ** res + 1):
            forms(units, n, res)
    # the whole 16-bit range
    for units, lo, hi in (("C", 0, 3641), ("F", 32, 6586)):
        if ctx.quick:
            for _ in range(4000):
                dp = rng.choice((0, 1, 2, 3, 6))
                forms(units, rng.randrange(lo * 10 ** dp, hi * 10 ** dp + 1), dp)
        else:
            for n in range(lo * 100, hi * 100 + 1):
                forms(units, n, 2)
            for _ in range(40000):
                dp = rng.choice((3, 6, 9))
                forms(units, rng.randrange(lo * 10 ** dp, hi * 10 ** dp + 1), dp)
    # every representable value given as a fraction-exact decimal where one exists (C: multiples of 0.5, F: one decimal)
    for raw in range(0, 65536, 1 if not ctx.quick else 7):
        if raw % 9 == 0:
            forms("C", raw * 10 // 18, 1)
        forms("F", raw + 320, 1)
    return out


def check_decimals(ctx, spa, tag, lines, expect, nontrivial):
    ub = {u: units_block(spa, u) for u in ("C", "F")}
    last = {}
    items = decimal_inputs(ctx)
    # monotonicity scan needs sorted inputs per unit
    items.sort(key=lambda x: (x[0], x[1]))
    for units, fr, pv in items:
        w1, w2 = impl_write(spa, tag, ub[units], pv)
        lines.append(f"wr {hexs(units)} {fr.numerator} {fr.denominator}")
        expect.append(("wr", units, str(fr), repr(pv), w1, w2))
        ctx.count("evaluations")
        ctx.hist("write_forms", type(pv).__name__)
        key_in = {"kind": "write", "units": units, "value": repr(pv), "exact": str(fr)}
        if w1 != w2:
            viol(ctx, f"paths:{units}:{fr}", key_in, "blocking and awaitable paths store the same word", [w1, w2])
        if not isinstance(w1, int):
            viol(ctx, f"write-raises:{units}:{fr}", key_in, "a word is written", w1)
            continue
        # the value the caller denotes: the float that float(pv) is (exact), for the statement in real arithmetic use fr
        back = exact_read(units, w1)
        st = step_of(units)
        is_rep = ((fr * 18) if units == "C" else (fr * 10 - 320)).denominator == 1
        if is_rep:
            want = int(fr * 18) if units == "C" else int(fr * 10 - 320)
            if w1 != want:
                viol(ctx, f"repr:{units}:{fr}", key_in, f"representable temperature stores {want} and reads back exactly", w1)
        elif not (abs(back - fr) < st):
            viol(ctx, f"step:{units}:{fr}", key_in, f"within one step ({st}) of {fr}", f"stored {w1} = {back}")
        if not is_rep:
            nontrivial.add((units, w1))
        # then read the stored word through the real accessor and write that back: stable
        blk2 = ub[units][:spa.accessors[tag].pos] + pystruct.pack(">H", w1 & 0xFFFF) + ub[units][spa.accessors[tag].pos + 2:]
        if 0 <= w1 < 65536 and len(lines) % 16 == 0:      # every 16th: read the stored word back through the real accessor
            ctx.count("write_then_read_then_write")
            v2 = impl_read(spa, tag, blk2)
            w3, _ = impl_write(spa, tag, blk2, v2)
            if w3 != w1:
                viol(ctx, f"readback:{units}:{w1}", {"kind": "readback", "units": units, "raw": w1}, f"stable at {w1}", w3)
        p = last.get(units)
        if p is not None and p[0] <= fr and p[1] > w1:
            viol(ctx, f"mono:{units}:{p[0]}:{fr}", {"kind": "mono", "units": units, "a": p[2], "b": repr(pv)},
                          "t <= u implies stored(t) <= stored(u)", [p[1], w1])
        last[units] = (fr, w1, repr(pv))


# ----------------------------------------------------------------------------------------------------- heater
def flag_states(acc):
    """[(raw field contents, expected is_on by the statement)] for a Heating / CoolingDown item"""
    if acc is None:
        return [(None, None)]
    cap = (acc.bitmask + 1) if acc.bitpos is not None else 256
    out = []
    for raw in range(min(cap, 4)):
        if acc.type == "Bool":
            on = raw == 1
        else:
            lab = acc.items[raw] if raw < len(acc.items) else "Unknown"
            on = lab not in ("", "OFF")
        out.append((raw, on))
    return out


def oracle_op(h, c, cur_raw, tgt_raw):
    """the statement read directly: flags decide, or lacking them the temperatures"""
    if h:
        return "Heating"
    if c:
        return "Cooling"
    if h is not None and c is not None:
        return "Idle"
    return "Heating" if cur_raw < tgt_raw else ("Cooling" if cur_raw > tgt_raw else "Idle")


def _other_side(cur, tgt):
    """a user setpoint on the OTHER side of the current temperature than the regulated target (economy / standby lower the
    regulated one and keep the user's): a heater that compared with the wrong word would report another operation"""
    if cur < tgt:
        return cur - 1 if cur > 0 else cur
    return cur + 1 if cur < 65535 else cur


def fl(x):
    return "n" if x is None else ("1" if x else "0")


def check_heater(ctx, cfg, log, drop, lines, expect, combos):
    try:
        spa = Spa(cfg, log, drop)
    except Exception as e:  # noqa
        viol(ctx, f"pair-import:{cfg}:{log}", {"kind": "pair", "cfg": cfg, "log": log}, "the pair builds its accessors", f"{type(e).__name__}: {e}")
        return
    if not all(k in spa.accessors for k in HEATER_KEYS):
        ctx.hist("heater_pairs", "lacks-heater-items")
        return
    try:
        from geckolib.automation.heater import GeckoWaterHeater
        heater = GeckoWaterHeater(StubFacade(spa))
    except Exception as e:  # noqa
        viol(ctx, f"heater-build:{cfg}:{log}:{','.join(drop)}", {"kind": "heater-build", "cfg": cfg, "log": log, "drop": list(drop)},
                      "GeckoWaterHeater builds on a pack that has the heater items", f"{type(e).__name__}: {e}")
        return
    ctx.hist("heater_pairs", "built")
    acc = spa.accessors
    ha, ca = acc.get("Heating"), acc.get("CoolingDown")
    words = [(270, 684), (684, 684), (700, 684), (0, 65535), (65535, 65534), (667, 666)]
    if not ctx.quick:
        words += [(ctx.rng.randrange(65536), ctx.rng.randrange(65536)) for _ in range(4)]
    unit_list = ["C", "F"] + (["Unknown"] if units_block(spa, "Unknown") is not None else [])
    for units in unit_list:
        ub = units_block(spa, units)
        # unit symbol and limits
        spa.set_block(ub)
        try:
            view = (heater.temperature_unit, heater.min_temp, heater.max_temp)
        except Exception as e:  # noqa
            view = f"raised {type(e).__name__}"
        lines.append(f"hv {hexs(units)}")
        expect.append(("hv", view))
        want = ("°C", 15, 40) if units == "C" else ("°F", 59, 104)
        ctx.count("evaluations")
        if view != want:
            viol(ctx, f"unit:{units}", {"kind": "unit", "cfg": cfg, "log": log, "units": units}, want, view)
        for hraw, hon in flag_states(ha):
            for craw, con in flag_states(ca):
                for cur, tgt, setp in [(c_, t_, s_) for (c_, t_) in words for s_ in (t_, _other_side(c_, t_))]:
                    b = ub
                    if ha is not None:
                        b = poke(b, ha, hraw)
                    if ca is not None:
                        b = poke(b, ca, craw)
                    b = poke(b, acc["DisplayedTempG"], cur)
                    b = poke(b, acc["RealSetPointG"], tgt)
                    b = poke(b, acc["SetpointG"], setp)          # the user's setpoint is a different word from the regulated one
                    spa.set_block(b)
                    try:
                        op = heater.current_operation
                        temps = (heater.current_temperature, heater.real_target_temperature, heater.target_temperature)
                        ison = (None if ha is None else heater._heating_action_sensor.is_on,
                                None if ca is None else heater._cooling_action_sensor.is_on)
                    except Exception as e:  # noqa
                        op, temps, ison = f"raised {type(e).__name__}: {e}", (None, None, None), (None, None)
                    ctx.count("evaluations")
                    cx, tx = exact_read(units if units == "C" else "F", cur), exact_read(units if units == "C" else "F", tgt)
                    lines.append(f"op {fl(hon)} {fl(con)} {cx.numerator} {cx.denominator} {tx.numerator} {tx.denominator}")
                    expect.append(("op", op))
                    want = oracle_op(hon, con, cur, tgt)
                    combos.add((fl(hon), fl(con), (cur > tgt) - (cur < tgt), units))
                    inp = {"kind": "ladder", "cfg": cfg, "log": log, "drop": list(drop), "units": units, "heating_raw": hraw,
                           "cooling_raw": craw, "current_raw": cur, "target_raw": tgt, "setpoint_raw": setp}
                    if op != want:
                        viol(ctx, f"ladder:h={fl(hon)}:c={fl(con)}:cmp={(cur > tgt) - (cur < tgt)}", inp, want, op)
                    if ison != (hon, con):
                        viol(ctx, f"ison:{'bool' if ha is not None and ha.type == 'Bool' else 'enum'}:{hraw}:{craw}", inp, (hon, con), ison)
                    okt = all(nearest_double_ok(exact_read("C" if units == "C" else "F", r), v) for r, v in zip((cur, tgt, setp), temps))
                    if not okt:
                        viol(ctx, f"heater-temps:{units}:{cur}:{tgt}:{'same' if setp == tgt else 'split'}", inp, "heater temperatures are the accessor values", temps)
    # ---- the SAME live heater / accessors across a change of the unit setting that leaves every stored word as it is (the spa reports
    #      only the units byte): the presentation must follow the unit at once
    if "C" in unit_list and "F" in unit_list:
        for cur, tgt in ((684, 684), (702, 666)):
            seq_views = []
            for units in ("C", "F", "C", "F"):
                b = units_block(spa, units)
                for key, w in (("DisplayedTempG", cur), ("RealSetPointG", tgt), ("SetpointG", tgt)):
                    b = poke(b, acc[key], w)
                if ha is not None:
                    b = poke(b, ha, 0)
                if ca is not None:
                    b = poke(b, ca, 0)
                spa.set_block(b)
                try:
                    temps = (heater.current_temperature, heater.real_target_temperature, heater.target_temperature)
                    sym = heater.temperature_unit
                except Exception as e:  # noqa
                    temps, sym = f"raised {type(e).__name__}: {e}", None
                ctx.count("evaluations")
                u = "C" if units == "C" else "F"
                okt = not isinstance(temps, str) and all(nearest_double_ok(exact_read(u, r), v) for r, v in zip((cur, tgt, tgt), temps))
                seq_views.append((units, temps))
                if not okt or sym != ("°C" if units == "C" else "°F"):
                    viol(ctx, f"unit-flip:{units}:same-words", {"kind": "unit-flip", "cfg": cfg, "log": log, "drop": list(drop), "sequence": [x[0] for x in seq_views],
                                                               "current_raw": cur, "target_raw": tgt},
                         f"after the unit setting changed to {units} (stored words unchanged) the temperatures are presented in {units}", [temps, sym])
                    break
    # is_on of the real binary sensors vs the model's isOn
    from geckolib.automation.sensors import GeckoBinarySensor
    for a in (ha, ca):
        if a is None:
            continue
        for raw, on in flag_states(a):
            spa.set_block(poke(bytes(1024), a, raw))
            try:
                val = a.value
                got = GeckoBinarySensor(StubFacade(spa), a.tag, a).is_on
            except Exception as e:  # noqa
                val, got = None, f"raised {type(e).__name__}"
            if isinstance(val, bool):
                lines.append(f"ison bool {1 if val else 0}")
            elif isinstance(val, str):
                lines.append(f"ison str {hexs(val)}")
            else:
                continue
            expect.append(("ison", got))
    # the target temperature written through the heater goes through the same accessor
    for units in ("C", "F"):
        ub = units_block(spa, units)
        t = 37.5 if units == "C" else 99.5
        spa.set_block(ub)
        spa.captured.clear()
        try:
            heater.set_target_temperature(t)
            got = spa.captured[-1]
        except Exception as e:  # noqa
            got = f"raised {type(e).__name__}"
        want = (acc["SetpointG"].pos, 2, 675)
        ctx.count("evaluations")
        if got != want:
            viol(ctx, f"heater-set:{units}", {"kind": "heater-set", "cfg": cfg, "log": log, "units": units, "value": t}, want, got)
    try:
        check_live_heater(ctx, cfg, log, spa, heater, acc)
    except Exception as e:  # noqa
        viol(ctx, f"live-heater:raised:{type(e).__name__}", {"kind": "live-heater", "cfg": cfg, "log": log}, "the history runs", f"{type(e).__name__}: {e}")


def check_live_heater(ctx, cfg, log, spa, heater, acc):
    """ONE heater object living across a history of writes and reports, against a spa that applies each command and reports the
    word back (replace_status_block_segment, as the partial update does): a write that lands on the word already held (the same
    temperature again; a value that truncates to it), a unit change at the keypad right after it, writes in the other unit -
    after every step what the heater presents is the stored word in the current unit, nothing else"""
    if "SetpointG" not in acc or "TempUnits" not in acc or acc["TempUnits"].items is None:
        return
    ua = acc["TempUnits"]
    if not ("C" in ua.items and "F" in ua.items):
        return
    sp = acc["SetpointG"]

    def word():
        b = spa.struct.status_block
        return (b[sp.pos] << 8) | b[sp.pos + 1]

    def units_now():
        return ua.value if ua.value in ("C", "F") else "F"

    histories = [
        [("u", "C"), ("w", 38.0), ("w", 38.0), ("u", "F"), ("w", 100.4), ("u", "C")],
        [("u", "C"), ("w", 14.0), ("w", 14.03), ("w", 14.05), ("u", "F")],
        [("u", "F"), ("w", 99.5), ("w", 99.54), ("u", "C"), ("w", 37.5), ("w", 37.52), ("u", "F")],
        [("u", "C"), ("w", 30.0), ("u", "F"), ("u", "C"), ("w", 30.0), ("u", "F")],
    ]
    for hist in histories:
        spa.set_block(poke(units_block(spa, "C"), sp, 600))
        done = []
        for kind, v in hist:
            done.append([kind, v])
            try:
                if kind == "u":
                    nb = poke(spa.struct.status_block, ua, ua.items.index(v))
                    spa.struct.replace_status_block_segment(ua.pos, nb[ua.pos:ua.pos + ua.length])
                else:
                    n0 = len(spa.captured)
                    heater.set_target_temperature(v)
                    for (p_, l_, val) in spa.captured[n0:]:
                        spa.struct.replace_status_block_segment(p_, int(val).to_bytes(l_, "big"))     # the spa applies it and reports it back
                shown = heater.target_temperature
                sym = heater.temperature_unit
            except Exception as e:  # noqa
                shown, sym = f"raised {type(e).__name__}: {e}", None
            ctx.count("evaluations")
            ctx.hist("live_heater_steps", kind)
            u = units_now()
            ok = not isinstance(shown, str) and nearest_double_ok(exact_read(u, word()), shown) and sym == ("°C" if u == "C" else "°F")
            if kind == "w" and ok:
                # the write itself: within one device step of what was asked, never above it by a step (truncation)
                asked = Fraction(str(v))
                ok = abs(exact_read(u, word()) - asked) < step_of(u)
            if not ok:
                viol(ctx, f"live-heater:{kind}:{u}", {"kind": "live-heater", "cfg": cfg, "log": log, "history": done},
                     f"the heater presents the stored word ({word()}) in {u}: {float(exact_read(u, word()))!r} {u}", [shown, sym])
                break


def check_items(ctx, spa, lines, expect, quick):
    """every temperature item of the pair: a few words through the real accessor, compared with the model's Item.tempValue/tempEncode"""
    rng = ctx.rng
    for tag, a in sorted(spa.accessors.items()):
        if type(a).__name__ != "GeckoTempStructAccessor":
            continue
        mod = spa.log if tag in spa._log_tags else spa.cfg      # build_accessors: log entries override cfg entries
        for units in ("C", "F"):
            ub = units_block(spa, units)
            for raw in ([0, 666, 65535] if quick else [0, 1, 666, 65535, rng.randrange(65536)]):
                blk = poke(ub, a, raw)
                bid = f"b{len(lines)}"
                v = impl_read(spa, tag, blk)
                lines.append(f"blk {bid} {blk.hex()}")
                expect.append(("ok",))
                lines.append(f"tv {mod} {tag} {hexs(units)} {bid}")
                expect.append(("tv", v))
                ctx.count("evaluations")
                ctx.count("item_reads")
                if not nearest_double_ok(exact_read(units, raw), v):
                    viol(ctx, f"item-value:{mod}:{tag}:{units}:{raw}", {"kind": "item-value", "cfg": spa.cfg, "log": spa.log, "tag": tag,
                                                                            "units": units, "raw": raw}, str(exact_read(units, raw)), repr(v))
                fr = Fraction(rng.randrange(1500, 4000), 100) if units == "C" else Fraction(rng.randrange(5900, 10400), 100)
                spa.set_block(blk)
                spa.captured.clear()
                try:
                    a.value = float(fr)
                    w = "w:%d:%d:%d" % spa.captured[-1]
                except Exception as e:  # noqa
                    w = "err:E_NOTWRITABLE" if "Cannot set value" in str(e) else f"err:{type(e).__name__}"
                lines.append(f"te {mod} {tag} {hexs(units)} {bid} {fr.numerator} {fr.denominator}")
                expect.append(("te", w))
                if (a.read_write is None) != (w == "err:E_NOTWRITABLE"):
                    viol(ctx, f"rw:{mod}:{tag}", {"kind": "item-rw", "cfg": spa.cfg, "log": spa.log, "tag": tag}, "refuses exactly when not writable", w)


def compare(ctx, lines, expect, model):
    """model answers vs implementation observations; floats are compared as exact Fractions against the model's num/den"""
    ndis = 0

    def bad(i, mo, why):
        nonlocal ndis
        ndis += 1
        if ndis <= 3:
            ctx.obligation_broken("correspondence:temperature-model-vs-implementation",
                                  {"op": lines[i][:120], "model": mo[:200], "impl": str(expect[i])[:300], "why": why})
    for i, (mo, ex) in enumerate(zip(model, expect)):
        k = ex[0]
        if k == "ok":
            if mo != "ok":
                bad(i, mo, "blk")
        elif k == "rw":
            _, units, raw, v, w1, w2 = ex
            parts = mo.split(" ")
            try:
                n, d = parts[0].split("/")
                fr = Fraction(int(n), int(d))
                if not nearest_double_ok(fr, v):
                    bad(i, mo, "presented value is not the double nearest to the model's rational")
                elif [str(w1), str(w2)] != parts[1:3]:
                    bad(i, mo, "write-back differs")
            except Exception as e:  # noqa
                bad(i, mo, f"unparsable: {e}")
        elif k == "wr":
            if mo.split(" ") != [str(ex[4]), str(ex[5])]:
                bad(i, mo, "written integer differs")
        elif k == "hv":
            view = ex[1]
            s = f"{hexs(view[0])} {view[1]} {view[2]}" if isinstance(view, tuple) else str(view)
            if mo != s:
                bad(i, mo, "heater view differs")
        elif k == "op":
            if mo != f"{ex[1]} {ex[1]}":
                bad(i, mo, "operation differs")
        elif k == "ison":
            if mo != ("1" if ex[1] is True else "0" if ex[1] is False else str(ex[1])):
                bad(i, mo, "is_on differs")
        elif k == "tv":
            try:
                n, d = mo.split("/")
                if not nearest_double_ok(Fraction(int(n), int(d)), ex[1]):
                    bad(i, mo, "item value differs")
            except Exception as e:  # noqa
                bad(i, mo, f"unparsable: {e}")
        elif k == "te":
            if mo != ex[1] and "E_OUTOFMODEL" not in mo:
                bad(i, mo, "item write differs")
    return ndis


def pairs_for(ctx, mods):
    """cfg/log pairs of one platform: quick = every module at least once, thorough = every pair"""
    plat = {}
    for m in mods:
        if m["kind"] in ("cfg", "log"):
            plat.setdefault(m["file"].rsplit("-", 2)[0], {"cfg": [], "log": []})[m["kind"]].append(m["file"])
    out = []
    for p, d in sorted(plat.items()):
        if not d["cfg"] or not d["log"]:
            continue
        if ctx.quick:
            n = max(len(d["cfg"]), len(d["log"]))
            out += [(d["cfg"][i % len(d["cfg"])], d["log"][i % len(d["log"])]) for i in range(n)]
        else:
            out += [(c, l) for c in d["cfg"] for l in d["log"]]
    return out


def run(ctx):
    _VCOUNT.clear()
    st = translate.run(["TempArith", "AccessorArith", "Packs", "Pinned", "Skeletons"])
    ctx.cov["translator"] = st
    for k, v in st.items():
        if v != "ok":
            ctx.obligation_broken(f"translate:{k}", v)
    ctx.lean_obligations("GeckoModel.Properties.C14")
    lines, expect = [], []
    nontrivial, combos = set(), set()
    # ---- 1. the enumeration (closes "exact read-back through real floats") + decimals, on the representative accessor
    try:
        rep = Spa(*REP)
        tag = find_writable_temp(rep)
        if tag is None:
            raise RuntimeError("no writable temperature item in " + str(REP))
    except Exception as e:  # noqa
        viol(ctx, "representative-accessor", {"kind": "pair", "cfg": REP[0], "log": REP[1]}, "builds a writable SetpointG", f"{type(e).__name__}: {e}")
        rep = None
    if rep is not None:
        fails = enumerate_words(ctx, rep, tag, lines, expect)
        ctx.cov["float_readback_enumeration"] = {
            "exhaustive": True, "kind": "enumeration on the implementation (NOT a theorem): every word x unit through the real "
            "GeckoTempStructAccessor (read, exact Fraction compared with raw/18 | (raw+320)/10, value written back through both write paths)",
            "domain": "65536 words x 2 units", "cases": 2 * 65536, "failures": fails, "accessor": f"{REP[0]}:{tag}"}
        ctx.log(f"enumeration of 131072 word/unit round trips on the real accessor: {fails} failures")
        check_decimals(ctx, rep, tag, lines, expect, nontrivial)
        ctx.log(f"decimal writes: {len(lines) - 131072}")
    # ---- 1b. the set point through the REAL client path against a spa whose report of a change is late: write T1, then T0 (what the
    #          client still shows) before the report of T1 has arrived - the last temperature written is what the spa holds and what reads back
    try:
        from props import c13
        from common import REPO as _REPO
        for sn_ in ("default.snapshot", "inYT-Pump1Hi-2020-12-13 11_19_35.snapshot"):
            c13.pending_report_scenarios(ctx, str(_REPO / "tests" / "snapshots" / sn_), "real-path", with_shared_word=False)
    except Exception as e:  # noqa
        viol(ctx, f"real-path:raised:{type(e).__name__}", {"kind": "pending-report", "snapshot": "default.snapshot"}, "the scenario runs", f"{type(e).__name__}: {e}")
    # ---- 2. heater on shipped pairs (+ the flag-presence variants on a pack that has both flags)
    mods = packs.load_tables()
    prs = pairs_for(ctx, mods)
    for cfg, log in prs:
        check_heater(ctx, cfg, log, (), lines, expect, combos)
    both = [(c, l) for c, l in prs if any(m["file"] == l and {"Heating", "CoolingDown"} <= {i["key"] for i in m["items"]} for m in mods)]
    for cfg, log in both[:1 if ctx.quick else 3]:
        for drop in (("Heating",), ("CoolingDown",), ("Heating", "CoolingDown")):
            check_heater(ctx, cfg, log, drop, lines, expect, combos)
    ctx.cov["pairs"] = len(prs)
    # ---- 3. every temperature item of the pairs through Item.tempValue / tempEncode
    seen_mod = set()
    log_tags = {m["file"]: {i["key"] for i in m["items"]} for m in mods if m["kind"] == "log"}
    for cfg, log in prs:
        if cfg in seen_mod and log in seen_mod:
            continue
        seen_mod |= {cfg, log}
        try:
            spa = Spa(cfg, log)
            if "TempUnits" not in spa.accessors:
                continue
            spa._log_tags = log_tags[log]
            check_items(ctx, spa, lines, expect, ctx.quick)
        except Exception as e:  # noqa
            viol(ctx, f"pair-import:{cfg}:{log}", {"kind": "pair", "cfg": cfg, "log": log}, "the pair builds its accessors", f"{type(e).__name__}: {e}")
    # ---- correspondence
    try:
        model = Driver("Driver/C14.lean").run(lines)
    except DriverFailure as e:
        ctx.obligation_broken("driver:C14", e)
        model = None
    if model is not None:
        ndis = compare(ctx, lines, expect, model)
        ctx.cov["correspondence_ops"] = len(lines)
        ctx.cov["correspondence_disagreements"] = ndis
        ctx.cov["out_of_model_skipped"] = sum(1 for mo in model if "E_OUTOFMODEL" in mo)
        first = {}
        for i, l in enumerate(lines):
            first.setdefault(l.split(" ")[0], i)
        for i in (666, 65536 + 986 - 320, first.get("wr", 0) + 5000, first.get("op", 0) + 7, first.get("hv", 0), first.get("tv", 0), first.get("te", 0)):
            if 0 <= i < len(lines):
                ctx.sample({"op": lines[i][:100], "model": model[i][:100], "impl": str(expect[i])[:160]}, cap=8)
    ctx.cov["ladder_combinations"] = len(combos)
    check_blocking_change_of_mind(ctx)
    ctx.cov["distinct_nontrivial"] = len(nontrivial) + len(combos)
    ctx.cov["rule"] = ("(a) ALL 65536 words x {C,F} on the real accessor (complete enumeration, see float_readback_enumeration); "
                       "(b) decimal writes as string / float / int forms: 0.01 (thorough 0.001) grid over 14-41 C and 58-105 F, the whole "
                       "16-bit range (quick: seeded, thorough: 0.01 grid + seeded 3/6/9-digit decimals), every representable value with an "
                       "exact decimal; (c) the real GeckoWaterHeater on every shipped cfg/log pair chosen by the tier (quick: every module "
                       "once, thorough: all pairs of a platform) x units (C, F, Unknown where the field allows) x every raw value of the "
                       "Heating / CoolingDown fields x 6+ word pairs, plus the four flag-presence variants; (d) every temperature item of "
                       "those modules. distinct_nontrivial = distinct (unit, stored word) reached by a NON-representable decimal write + "
                       "distinct (heating, cooling, sign(current-target), unit) ladder combinations observed")
    ctx.assumptions += ["float_bridge's hypotheses on rounding (monotone, relative error <= 2^-52) are the standard model of IEEE-754 "
                        "binary64 round-to-nearest away from underflow/overflow; they are hypotheses of that theorem only",
                        "'exact read-back through real floats' rests on the complete enumeration above, not on a theorem",
                        "a flag that exists but is off while the other flag does not exist: the temperatures decide (as the code reads)"]


def check_blocking_change_of_mind(ctx, only=None):
    """the BLOCKING client's heater (real start_connect handshake, stepped): the setpoint is written, and written back to the value shown
    before, while the spa's report of the first write is still under way - the device must end with the value written last and the heater
    read it back"""
    import bsessions
    from common import REPO
    for f, tag in (("inYT-Pump1Hi-2020-12-13 11_19_35.snapshot", "SetpointG"), ("inYJ-All off-2020-12-18 11_24_09.snapshot", "SetpointG"),
                   ("inYT-Pump1Hi-2020-12-13 11_19_35.snapshot", "UdP2")):
        if only is not None and only != [f, tag]:
            continue
        r = bsessions.change_of_mind(str(REPO / "tests" / "snapshots" / f), tag)
        ctx.count("evaluations")
        ctx.hist("blocking_change_of_mind", "connected" if r.get("connected") else "not-connected")
        if r.get("skipped"):
            continue
        bad = (not r.get("connected")) or r.get("errors") or r.get("commands") != 2 or r.get("client_reads") != r.get("want") or r.get("spa_raw") != r.get("client_raw")
        if bad:
            ctx.violation(f"blocking-client:written-back-before-the-report:{tag}", {"kind": "blocking-change-of-mind", "case": [f, tag]},
                          "both writes reach the spa; the device and the client end with the value written last", r)


# ----------------------------------------------------------------------------------------------------- replay
def replay(inp):
    k = inp.get("kind")
    if k == "blocking-change-of-mind":
        from common import Ctx
        c = Ctx("C14", "quick", 0)
        check_blocking_change_of_mind(c, only=inp["case"])
        return bool(c.violations), c.violations[0]["observed"] if c.violations else "the value written last"
    if k in ("value", "readback", "order-read"):
        spa = Spa(*REP)
        tag = find_writable_temp(spa)
        acc = spa.accessors[tag]
        ub = units_block(spa, inp["units"])
        raw = inp["raw"]
        blk = ub[:acc.pos] + pystruct.pack(">H", raw) + ub[acc.pos + 2:]
        v = impl_read(spa, tag, blk)
        w1, w2 = impl_write(spa, tag, blk, v)
        bad = not nearest_double_ok(exact_read(inp["units"], raw), v) or w1 != raw or w2 != raw
        return bad, {"value": repr(v), "written_back": [w1, w2]}
    if k == "write":
        spa = Spa(*REP)
        tag = find_writable_temp(spa)
        fr = Fraction(inp["exact"])
        pv = eval(inp["value"])
        w1, w2 = impl_write(spa, tag, units_block(spa, inp["units"]), pv)
        if not isinstance(w1, int) or w1 != w2:
            return True, [w1, w2]
        back = exact_read(inp["units"], w1)
        x = (fr * 18) if inp["units"] == "C" else (fr * 10 - 320)
        bad = (w1 != int(x)) if x.denominator == 1 else not abs(back - fr) < step_of(inp["units"])
        return bad, {"stored": w1, "reads": str(back)}
    if k == "mono":
        spa = Spa(*REP)
        tag = find_writable_temp(spa)
        ub = units_block(spa, inp["units"])
        a, _ = impl_write(spa, tag, ub, eval(inp["a"]))
        b, _ = impl_write(spa, tag, ub, eval(inp["b"]))
        return not (isinstance(a, int) and isinstance(b, int) and a <= b), [a, b]
    if k == "pending-report":
        from props import c13
        from common import Ctx, REPO as _REPO
        c = Ctx("C14", "quick", 0)
        c13.pending_report_scenarios(c, str(_REPO / "tests" / "snapshots" / inp["snapshot"]), "real-path", with_shared_word=False)
        return bool(c.violations), c.violations[0]["observed"] if c.violations else "the last temperature written is held and read back"
    if k == "live-heater":
        from geckolib.automation.heater import GeckoWaterHeater
        from common import Ctx
        spa = Spa(inp["cfg"], inp["log"])
        heater = GeckoWaterHeater(StubFacade(spa))
        c = Ctx("C14", "quick", 0)
        check_live_heater(c, inp["cfg"], inp["log"], spa, heater, spa.accessors)
        v = [x for x in c.violations if x["input"].get("history") == inp.get("history")] or c.violations
        return bool(v), v[0]["observed"] if v else "presents the stored word"
    if k in ("ladder", "unit", "heater-build", "heater-set"):
        from geckolib.automation.heater import GeckoWaterHeater
        spa = Spa(inp["cfg"], inp["log"], tuple(inp.get("drop", ())))
        try:
            heater = GeckoWaterHeater(StubFacade(spa))
        except Exception as e:  # noqa
            return True, f"{type(e).__name__}: {e}"
        if k == "heater-build":
            return False, "builds"
        acc = spa.accessors
        ub = units_block(spa, inp["units"])
        if k == "unit":
            spa.set_block(ub)
            view = (heater.temperature_unit, heater.min_temp, heater.max_temp)
            return view != (("°C", 15, 40) if inp["units"] == "C" else ("°F", 59, 104)), view
        if k == "heater-set":
            spa.set_block(ub)
            spa.captured.clear()
            try:
                heater.set_target_temperature(inp["value"])
                got = spa.captured[-1]
            except Exception as e:  # noqa
                got = f"raised {type(e).__name__}"
            return got != (acc["SetpointG"].pos, 2, 675), got
        b = ub
        ha, ca = acc.get("Heating"), acc.get("CoolingDown")
        hon = con = None
        if ha is not None:
            b = poke(b, ha, inp["heating_raw"])
            hon = dict(flag_states(ha))[inp["heating_raw"]]
        if ca is not None:
            b = poke(b, ca, inp["cooling_raw"])
            con = dict(flag_states(ca))[inp["cooling_raw"]]
        for key, w in (("DisplayedTempG", inp["current_raw"]), ("RealSetPointG", inp["target_raw"]), ("SetpointG", inp.get("setpoint_raw", inp["target_raw"]))):
            b = poke(b, acc[key], w)
        spa.set_block(b)
        try:
            op = heater.current_operation
            temps = (heater.current_temperature, heater.real_target_temperature, heater.target_temperature)
        except Exception as e:  # noqa
            op, temps = f"raised {type(e).__name__}: {e}", None
        u = "C" if inp["units"] == "C" else "F"
        okt = temps is not None and all(nearest_double_ok(exact_read(u, r), v) for r, v in zip(
            (inp["current_raw"], inp["target_raw"], inp.get("setpoint_raw", inp["target_raw"])), temps))
        return op != oracle_op(hon, con, inp["current_raw"], inp["target_raw"]) or not okt, (op, temps)
    if k in ("item-value", "item-rw"):
        spa = Spa(inp["cfg"], inp["log"])
        a = spa.accessors[inp["tag"]]
        if k == "item-rw":
            w1, _ = impl_write(spa, inp["tag"], units_block(spa, "C"), 37.0)
            return (a.read_write is None) != (not isinstance(w1, int)), w1
        v = impl_read(spa, inp["tag"], poke(units_block(spa, inp["units"]), a, inp["raw"]))
        return not nearest_double_ok(exact_read(inp["units"], inp["raw"]), v), repr(v)
    if k == "pair":
        try:
            Spa(inp["cfg"], inp["log"])
            return False, "builds"
        except Exception as e:  # noqa
            return True, f"{type(e).__name__}: {e}"
    return True, "unknown replay kind"
