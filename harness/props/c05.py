"""C05 - partial updates are applied exactly once, in arrival order, and acknowledged."""
import asyncio
import struct

import translate
import vloop
from common import Driver, DriverFailure, hx
from props.c03 import checksum
from props.c16 import _Desc, _seq_byte

LEVEL = "proof"
MANIFEST = dict(
    text="Lean 4 theorems, by induction over every finite history of STATP messages (any number of 4-byte records, repeated positions, the simulator's "
         "1-byte form) interleaved with refreshes: both clients' block equals the sequential reference (async_equals_reference for ANY stale pending list; "
         "sync_equals_reference with the invariant 'pending list empty between messages'), exactly one STATQ per STATP with a sequence number in 1..191 "
         "(through C16's counter theorems). The model is parameterised by facts re-extracted from the source on every run (record slicing arithmetic, the "
         "`self.changes = []` reset, the for-else clear, ack-before-parse, counter kind), so removing the reset or changing a slice changes the Lean term. "
         "Tie: translator facts + differential correspondence of the real long-lived handler objects (async via the real consume task on the virtual loop; "
         "threaded via stepped dispatch on a real GeckoSpa) + a sequential reference block kept by the harness (search)."
         ' Since session 3: partial updates carry overlapping neighbour records (p, p+-1, p). Session 4: histories contain partial updates that arrive while a request holds the protocol lock (busy windows): application stays in arrival order and every update is acknowledged. The acknowledging handler and the apply callback of the awaitable client have no suspension point (partial_update_never_suspends over the regenerated skeletons; no_suspension_no_aw: every trace is one atomic block). Histories with a byte-identical report repeated after a refresh overwrote its positions; partial_update_path_state_inventory. Real refresh exchanges on the wire with a partial update queued just ahead of the answer, at several phases of the two pollers. Session 5: connected clients (the items of a pack\'s tables built over the block and watched, as a facade does) with partial updates and refreshes that put unusual stored values under them (an enumeration\'s byte at / around its label count, 255, first record of several); an exception of the implementation during a refresh is an observation with a failing input. The threaded rig\'s partial updates arrive as framed datagrams in a fake OS socket that truncates to the reader\'s buffer and are read by the engine\'s own receive step; maximal messages (255 records) in the corpus; largest_partial_update_fits_the_receive_buffer over the regenerated recvBufferSize. One message for every record count 0..255; count_follows_the_verb over the regenerated verbSkip facts (the translator admits only `received_bytes[<constant>:]`). Round 14: a real connected manager; behind the final segment of every refresh answer the spa reports a change inside the refreshed range - the client must hold the change (arrival order). Round 15: the spa reports changes while the hand-shake is between the config file and the block and inside a slow handler of the completed connection; a report of two changes in front of the final segment of a refresh answer with a client handler that suspends on every event. Round 17: a change outside the range being refreshed, reported while the transfer is under way, stays in the client\'s block.',
    note="Trusted: Lean kernel, translator, correspondence harness. asyncio: no other task runs between async_handle and async_handled (neither suspends). "
         "Malformed STATP bodies (short records) and observers that raise inside the threaded callback are outside the property's quantifier and the model. "
         "A STATQ arriving at the client is outside the quantifier too (the async handler would then re-apply its last change list).",
    technique="Lean 4 induction over histories (refinement to a sequential reference) over a model parameterised by source-extracted facts + differential correspondence",
    design="5/C05")

SENDER = ("10.0.0.1", 10022, _Desc.identifier, b"IOSclient")


def mk_statp(records):
    """records: list of (pos, databytes) -> body after the verb"""
    return bytes([len(records)]) + b"".join(struct.pack(">H", p) + d for p, d in records)


def gen_history(rng, n):
    """events: ('statp', records) | ('refresh', off, seg) - aimed at the 0.3.19 bug class"""
    ev = []
    hot = [rng.randrange(1, 1000) for _ in range(4)]
    if rng.random() < 0.5:
        # one message: a position, an overlapping neighbour, the same position again (last writer per byte must win, in order)
        p = rng.choice(hot)
        ev.append(("statp", [(p, bytes([rng.randrange(256), rng.randrange(256)])), (p + rng.choice([1, -1]), bytes([rng.randrange(256), rng.randrange(256)])),
                             (p, bytes([rng.randrange(256), rng.randrange(256)]))]))
    if rng.random() < 0.5:
        # the spa reports X, a refresh then overwrites the same positions with other bytes (the report of the change back was lost),
        # and the spa reports X again - BYTE-IDENTICAL to its earlier message: it is a new update and must be applied
        p = rng.choice(hot)
        rec = [(p, bytes([rng.randrange(1, 256), rng.randrange(256)]))] + ([(min(1021, p + 2), bytes([rng.randrange(256), 7]))] if rng.random() < 0.5 else [])
        ev.append(("statp", list(rec)))
        if rng.random() < 0.5:
            ev.append(("statp", list(rec)))                  # (an immediate repeat is harmless either way)
        off = max(0, p - 1)
        ev.append(("refresh", off, bytes((b ^ 0x3C) for b in bytes(8))[:1024 - off]))
        ev.append(("statp", list(rec)))
    if rng.random() < 0.7:
        # a partial update that arrives just AHEAD of the answer to a refresh of an overlapping range (both queued together), at
        # several phases of the two pollers' cycles
        for delay_ms in rng.sample([105, 120, 135, 150, 165, 180, 195], 3):
            p = rng.choice(hot)
            off = max(0, p - rng.randrange(0, 3))
            ev.append(("wire", [(p, bytes([rng.randrange(256), rng.randrange(256)]))], off,
                       bytes(rng.randrange(256) for _ in range(rng.choice([4, 8, 39])))[:1024 - off], delay_ms, rng.choice([0, 23, 37, 64, 91])))
    for _ in range(n):
        r = rng.random()
        if r < 0.62:
            k = rng.choice([0, 1, 1, 1, 2, 3, 5, rng.randrange(0, 40), 255 if rng.random() < 0.05 else 2])
            recs = []
            for _ in range(k):
                # records are 2-byte words: neighbouring positions OVERLAP, so order matters within one message
                pos = min(1021, max(0, rng.choice(hot) + rng.choice([0, 0, 0, 1, -1]))) if rng.random() < 0.6 else rng.randrange(0, 1022)
                recs.append((pos, bytes([rng.randrange(256), rng.randrange(256)])))
            ev.append(("statp", recs))
        elif r < 0.70:
            ev.append(("statp", [(rng.choice(hot), bytes([rng.randrange(256)]))]))      # the simulator's 1-byte form
        elif r < 0.76:
            # arrivals while a request is in flight: two partial updates at a hot position, then a refresh overlapping it
            p = rng.choice(hot)
            r1 = [(p, bytes([rng.randrange(256), rng.randrange(256)]))]
            r2 = [(min(1021, p + 1), bytes([rng.randrange(256), rng.randrange(256)]))]
            off = max(0, p - 1)
            ev.append(("busy", r1, r2, off, bytes(rng.randrange(256) for _ in range(6))[:1024 - off]))
        else:
            p = rng.choice(hot)
            off = max(0, p - rng.randrange(0, 3))
            seg = bytes(rng.randrange(256) for _ in range(rng.choice([2, 4, 39, 100])))
            seg = seg[:1024 - off]
            ev.append(("refresh", off, seg))
            if rng.random() < 0.35:
                ev.append(("statp", []))
    return ev


def _connected_tables(struct_, tables):
    """a CONNECTED client has the items of its pack tables built over the block, and its facade watches them: every update then also
    decodes the old and the new value of every item it touches (the decoders are code the update path runs)"""
    if not tables:
        return
    import importlib
    cm = importlib.import_module("geckolib.driver.packs." + tables[0])
    lm = importlib.import_module("geckolib.driver.packs." + tables[1])
    struct_.build_accessors(cm.GeckoConfigStruct(struct_), lm.GeckoLogStruct(struct_))
    for acc in struct_.accessors.values():
        acc.watch(_quiet_observer)


def _quiet_observer(sender, old, new):
    pass


def gen_edge_history(rng, items):
    """partial updates and refreshes that put UNUSUAL stored values under the items of a connected client: an enumeration's byte at
    exactly / just below / just above the number of its labels, 255, times with minute bytes > 59, words at 0 / 0xFFFF; the unusual
    record comes FIRST in a message of several records, so that a decoder that gives up loses the rest of the message"""
    ev = []
    enums = [it for it in items if it["kind"] == "enum" and it["pos"] + 2 < 1022 and it["pos"] > 1]
    others = [it for it in items if it["kind"] in ("time", "word", "temp", "byte", "bool") and 1 < it["pos"] < 1020]
    picks = rng.sample(enums, min(len(enums), 5)) + rng.sample(others, min(len(others), 2))
    for it in picks:
        n = len(it.get("labels") or [])
        if it["kind"] == "enum":
            if it["bitpos"] is None:
                vals = [n, n - 1, n + 1, 255, n]
            else:
                vals = [min(it["mask"], n) << it["bitpos"], it["mask"] << it["bitpos"], 0xFF, max(0, n - 1) << it["bitpos"]]
            vals = [v & 0xFF for v in vals if v >= 0]
        else:
            vals = [0, 0xFF, 0x3C, 0x7F]
        far = [rng.randrange(2, 1000) for _ in range(2)]
        for v in vals:
            p = it["pos"] + it["len"] - 1            # the item's low (or only) byte
            form = rng.randrange(4)
            if form == 0:
                ev.append(("statp", [(p, bytes([v, rng.randrange(256)])), (far[0], bytes([rng.randrange(256), rng.randrange(256)])),
                                     (far[1], bytes([rng.randrange(256), rng.randrange(256)]))]))
            elif form == 1:
                ev.append(("statp", [(p - 1, bytes([rng.randrange(256), v])), (far[0], bytes([rng.randrange(256), rng.randrange(256)]))]))
            elif form == 2:
                ev.append(("statp", [(p, bytes([v]))]))
                ev.append(("statp", [(far[1], bytes([rng.randrange(256), rng.randrange(256)]))]))
            else:
                off = max(0, p - 3)
                seg = bytearray(rng.randrange(256) for _ in range(8))
                seg[p - off] = v
                ev.append(("refresh", off, bytes(seg)[:1024 - off]))
            if rng.random() < 0.5:
                # ... and AWAY from the unusual value again
                ev.append(("statp", [(p, bytes([rng.randrange(0, max(1, n) if it["kind"] == "enum" else 256), rng.randrange(256)])),
                                     (far[0], bytes([rng.randrange(256), rng.randrange(256)]))]))
            if rng.random() < 0.3:
                ev.append(("refresh", max(0, far[0] - 1), bytes(rng.randrange(256) for _ in range(4))))
                ev.append(("statp", []))
    return ev


class AsyncRig:
    """real GeckoAsyncSpa + real protocol + the real long-lived partial handler consuming from the real queue"""

    def __init__(self, loop, block, tables=None):
        from geckolib.async_spa import GeckoAsyncSpa
        from geckolib.async_tasks import AsyncTasks
        from geckolib.driver.async_udp_protocol import GeckoAsyncUdpProtocol
        from geckolib.driver.protocol.statusblock import GeckoAsyncPartialStatusBlockProtocolHandler

        async def ev(*a, **k):
            pass
        self.loop = loop
        self.spa = GeckoAsyncSpa(b"IOSclient", _Desc(), AsyncTasks(), ev)
        self.proto = GeckoAsyncUdpProtocol(None, _Desc.destination)
        self.tr = vloop.FakeTransport(loop, self.proto)
        self.proto.connection_made(self.tr)
        self.spa._protocol = self.proto
        self.spa.struct.set_status_block(block)
        _connected_tables(self.spa.struct, tables)
        self.handler = GeckoAsyncPartialStatusBlockProtocolHandler(self.proto, async_on_handled=self.spa._async_on_partial_status_update)
        self.task = asyncio.ensure_future(self.handler.consume(self.proto))

    async def statp(self, body):
        self.proto.datagram_received(b"STATP" + body, SENDER)
        for _ in range(4):
            await asyncio.sleep(0.1)
            if self.proto.queue.qsize() == 0:
                break
        if self.task.done():
            return "err:consumer-died:" + type(self.task.exception()).__name__

    def refresh(self, off, seg):
        self.spa.struct.replace_status_block_segment(off, seg)

    async def busy_window(self, bodies, off, seg):
        """the same arrivals while a request of the connection is IN FLIGHT (it holds the protocol lock until its reply comes):
        two partial updates, then a refresh of an overlapping range, then the reply"""
        from geckolib.driver import GeckoPingProtocolHandler
        g = asyncio.ensure_future(self.proto.get(lambda: GeckoPingProtocolHandler.request(parms=SENDER), None, 1))
        await asyncio.sleep(0.15)
        for b in bodies:
            self.proto.datagram_received(b"STATP" + b, SENDER)
            await asyncio.sleep(0.25)
        self.spa.struct.replace_status_block_segment(off, seg)
        await asyncio.sleep(0.1)
        self.proto.datagram_received(b"APING\x00", SENDER)
        try:
            await asyncio.wait_for(g, 10)
        except Exception as e:  # noqa
            return "err:request:" + type(e).__name__
        await asyncio.sleep(0.4)
        if self.task.done():
            return "err:consumer-died:" + type(self.task.exception()).__name__

    async def wire_refresh(self, body, off, seg, delay=0.15, pre=0.0):
        """a REAL refresh exchange (GeckoAsyncStructure.get: STATU out, one STATV in) with a partial update arriving just ahead of the
        answer: both datagrams are in the receive queue, the STATP first, before either the refresh waiter or the partial consumer runs"""
        from geckolib.driver.protocol.statusblock import GeckoStatusBlockProtocolHandler
        n = [0]

        def mk():
            n[0] += 1
            return GeckoStatusBlockProtocolHandler.request(n[0], off, len(seg), parms=SENDER)
        await asyncio.sleep(pre)            # shifts the refresh waiter's polling phase against the partial consumer's
        g = asyncio.ensure_future(self.spa.struct.get(self.proto, mk, 1))
        await asyncio.sleep(delay)          # where in the two pollers' 0.1 s cycles the pair arrives decides who looks at the queue first
        fr = GeckoStatusBlockProtocolHandler.response(0, 0, seg, parms=SENDER).send_bytes
        content = fr[fr.index(b"<DATAS>") + 7:fr.rindex(b"</DATAS>")]
        self.proto.datagram_received(b"STATP" + body, SENDER)
        self.proto.datagram_received(content, SENDER)
        try:
            ok = await asyncio.wait_for(g, 10)
        except Exception as e:  # noqa
            return "err:refresh:" + type(e).__name__
        await asyncio.sleep(0.4)
        if ok is not True:
            return "err:refresh-failed"
        if self.task.done():
            return "err:consumer-died:" + type(self.task.exception()).__name__

    def show(self):
        acks = [_seq_byte(d) for (_, d, _) in self.tr.sent if b"STATQ" in d]
        b = self.spa.struct.status_block
        return f"{checksum(b)} len={len(b)} pending={len(self.handler.changes)} acks={len(acks)} last={acks[-1][1] if acks else 0}", acks


class SyncRig:
    """real GeckoSpa, engine stepped by hand: dispatch_recevied_data on the client's own handler list"""

    def __init__(self, block, tables=None):
        from geckolib.spa import GeckoSpa
        self.spa = GeckoSpa(_Desc())
        self.spa.struct.set_status_block(block)
        _connected_tables(self.spa.struct, tables)
        from geckolib.driver.protocol.statusblock import GeckoPartialStatusBlockProtocolHandler
        self.handler = [h for h in self.spa._receive_handlers if isinstance(h, GeckoPartialStatusBlockProtocolHandler)][0]

    def statp(self, body):
        # as it arrives: one framed datagram in the OS socket's buffer (a fake that truncates to the reader's buffer size, as UDP
        # does), read by the engine's own receive step and unwrapped by the client's own packet handler
        import rig as _rig
        from props.c01 import BufSock
        if not isinstance(self.spa._socket, BufSock):
            self.spa._socket = BufSock()          # the environment (the OS socket), not client state
        self.spa._socket.buffer.append((_rig.frame(_Desc.identifier, b"IOSclient", b"STATP" + body), SENDER[:2]))
        self.spa._process_received_data()

    def refresh(self, off, seg):
        self.spa.struct.replace_status_block_segment(off, seg)

    def show(self):
        acks = [_seq_byte(h.send_bytes) for (h, _) in self.spa._send_handlers]
        b = self.spa.struct.status_block
        return f"{checksum(b)} len={len(b)} pending={len(self.handler.changes)} acks={len(acks)} last={acks[-1][1] if acks else 0}", acks


def ref_apply(block, recs):
    for pos, d in recs:
        block = block[:pos] + d + block[pos + len(d):]
    return block


def run_history(ctx, hist, block0, lines, impl_ans, label, tables=None):
    """runs one history on both real clients, appends ops/answers, checks the direct oracle"""
    results = {}

    async def body(loop):
        a = AsyncRig(loop, block0, tables)
        s = SyncRig(block0, tables)
        lines.append(f"a new {block0.hex()}")
        impl_ans.append(a.show()[0])
        lines.append(f"s new {block0.hex()}")
        impl_ans.append(s.show()[0])
        ref = block0
        nstatp = 0
        for i, e in enumerate(hist):
            if e[0] == "busy":
                b1, b2 = mk_statp(e[1]), mk_statp(e[2])
                nstatp += 2
                ref = ref_apply(ref_apply(ref, e[1]), e[2])
                ref = ref[:e[3]] + e[4] + ref[e[3] + len(e[4]):]
                try:
                    err = await a.busy_window([b1, b2], e[3], e[4])
                except Exception as ex:  # noqa
                    err = "err:raised:" + type(ex).__name__
                try:
                    s.statp(b1)
                    s.statp(b2)
                    s.refresh(e[3], e[4])
                except Exception as ex:  # noqa
                    results["sync_exc"] = repr(ex)
                # the model sees the three arrivals in order; only the last answer line is compared
                for name in ("a", "s"):
                    lines.append(f"{name} statp {hx(b1)}")
                    impl_ans.append(None)
                    lines.append(f"{name} statp {hx(b2)}")
                    impl_ans.append(None)
                op = f"refresh {e[3]} {hx(e[4])}"
                ctx.hist("ops", "busy-window")
            elif e[0] == "wire":
                b1 = mk_statp(e[1])
                nstatp += 1
                ref = ref_apply(ref, e[1])
                ref = ref[:e[2]] + e[3] + ref[e[2] + len(e[3]):]
                try:
                    err = await a.wire_refresh(b1, e[2], e[3], (e[4] if len(e) > 4 else 150) / 1000.0, (e[5] if len(e) > 5 else 0) / 1000.0)
                except Exception as ex:  # noqa
                    err = "err:raised:" + type(ex).__name__
                try:
                    s.statp(b1)
                    s.refresh(e[2], e[3])
                except Exception as ex:  # noqa
                    results["sync_exc"] = repr(ex)
                for name in ("a", "s"):
                    lines.append(f"{name} statp {hx(b1)}")
                    impl_ans.append(None)
                op = f"refresh {e[2]} {hx(e[3])}"
                ctx.hist("ops", "wire-refresh")
            elif e[0] == "statp":
                bodyb = mk_statp(e[1])
                nstatp += 1
                ref = ref_apply(ref, e[1])
                err = await a.statp(bodyb)
                try:
                    s.statp(bodyb)
                except Exception as ex:  # noqa
                    results["sync_exc"] = repr(ex)
                    ctx.hist("threaded_client_raised", type(ex).__name__)
                op = f"statp {hx(bodyb)}"
                ctx.hist("ops", f"statp:{min(len(e[1]), 5)}{'+' if len(e[1]) > 5 else ''}rec")
            else:
                ref = ref[:e[1]] + e[2] + ref[e[1] + len(e[2]):]
                err = None
                for rg_ in (a, s):
                    try:
                        rg_.refresh(e[1], e[2])
                    except Exception as ex:  # noqa - an exception of the implementation is an observation, not a harness failure
                        cls_ = "async" if rg_ is a else "threaded"
                        ctx.violation(f"refresh-raised:{cls_}:{type(ex).__name__}", {"client": cls_, "block0": block0.hex(), "tables": list(tables) if tables else None,
                                      "history": [list(map(lambda x: x.hex() if isinstance(x, bytes) else x, ev_json(ev))) for ev in hist[:i + 1]]},
                                      "a refresh installs its bytes", f"{type(ex).__name__}: {ex}")
                        if rg_ is a:
                            err = "err:refresh-raised:" + type(ex).__name__
                op = f"refresh {e[1]} {hx(e[2])}"
                ctx.hist("ops", "refresh")
            for name, rig in (("a", a), ("s", s)):
                shown, acks = rig.show()
                lines.append(f"{name} {op}")
                impl_ans.append(err if (name == "a" and err) else shown)
                blk = rig.spa.struct.status_block
                # ---------------- direct oracle on the implementation
                cls = "async" if name == "a" else "threaded"
                if blk != ref:
                    diff = [j for j in range(min(len(blk), len(ref))) if blk[j] != ref[j]][:5]
                    ctx.violation(f"block:{cls}", {"client": cls, "block0": block0.hex(), "tables": list(tables) if tables else None, "history": [list(map(lambda x: x.hex() if isinstance(x, bytes) else x, ev_json(ev))) for ev in hist[:i + 1]]},
                                  "client block equals the sequentially updated reference", {"first_differing_positions": diff, "event_index": i})
                if len(acks) != nstatp:
                    ctx.violation(f"acks:{cls}", {"client": cls, "block0": block0.hex(), "tables": list(tables) if tables else None, "acks_only": True,
                                                  "history": [list(map(lambda x: x.hex() if isinstance(x, bytes) else x, ev_json(ev))) for ev in hist[:i + 1]]},
                                  f"{nstatp} STATQ", f"{len(acks)} STATQ")
                for verb, seq in acks:
                    if verb != "STATQ" or not (1 <= seq <= 191):
                        ctx.violation(f"ackseq:{cls}", {"client": cls}, "STATQ with sequence in 1..191", [verb, seq])
                if name == "s" and len(rig.handler.changes) != 0:
                    ctx.violation("pending:threaded", {"client": cls, "history_len": i + 1}, "pending list empty between messages", len(rig.handler.changes))
            ctx.count("evaluations")
        a.task.cancel()
        return None

    vloop.run_virtual(body)
    return results


def connected_refresh_then_update(ctx):
    """the REAL connection (manager -> `_connect`: the packet consumer, the partial-update consumer and the refresh loop as it wires
    them) against the real simulator: right BEHIND the final segment of every answer to a status block request the spa reports a change
    of a position inside the requested range (a framed STATP, built by the simulator's own report constructor). Arrival order says:
    the refresh first, the change second - so the position must hold the reported change afterwards, every time"""
    import fakenet
    import struct as pystruct
    from geckolib import GeckoAsyncSpaMan
    from geckolib.driver.protocol.statusblock import GeckoPartialStatusBlockProtocolHandler
    from props import c10
    rec = {"injected": [], "acks": 0}

    async def body(loop):
        early = {"sent": 0}

        def spa_reports_a_change():
            """the spa changes one of its own values NOW (somebody at the keypad) and reports it to every client that has pinged"""
            import builtins
            sa = next(a for t, a in sim.structure.accessors.items() if a.read_write is not None and a.type == "Enum" and a.items
                      and len([x for x in a.items if x]) >= 2 and t.startswith("Ud"))
            labs = [x for x in sa.items if x]
            real_print = builtins.print
            builtins.print = lambda *a, **k: None
            sim._send_structure_change = True
            try:
                sa.value = labs[0] if sa.value != labs[0] else labs[1]
            finally:
                sim._send_structure_change = False
                builtins.print = real_print
            queued = list(sim._socket._send_handlers)
            sim._socket._send_handlers.clear()
            live = [x for x in net.transports if not x.closed]
            for hdl, _d in queued:
                if live:
                    net.push(live[-1], hdl.send_bytes)
                    early["sent"] += 1

        class Man(GeckoAsyncSpaMan):
            async def handle_event(self, event, **kw):
                name = str(event)
                # changes reported DURING start-up: while the handshake is still running, and while the client's own handler of
                # "connection complete" is still busy (the consumers must already be there: nothing may be lost or go unacknowledged)
                if "CONNECTION_GOT_CONFIG_FILES" in name and not early.get("a"):
                    early["a"] = True
                    spa_reports_a_change()
                if "CONNECTION_SPA_COMPLETE" in name and not early.get("b"):
                    early["b"] = True
                    spa_reports_a_change()
                    await asyncio.sleep(0.6)
                elif rec.get("inject"):
                    await asyncio.sleep(0.05)      # a client whose handler really suspends, on every event it is given
        sim = fakenet.make_sim(c10.SNAP)
        net = fakenet.Network(loop, sim, phases=[], seed=1)
        loop.network = net
        m = Man("uuid-1", spa_identifier=c10.IDENT, spa_address="10.0.0.9", spa_name="Spa")
        last_req = {}
        n = [0]

        def on_client(data):
            k = data.find(b"<DATAS>STATU")
            if k >= 0 and len(data) >= k + 17:
                _seq, start, length = pystruct.unpack(">BHH", data[k + 12:k + 17])
                last_req["range"] = (start, length)
            if b"<DATAS>STATQ" in data:
                rec["acks"] += 1

        def on_deliver(tr, payload):
            k = payload.find(b"<DATAS>STATV")
            if k < 0 or len(payload) < k + 15 or payload[k + 13] != 0 or "range" not in last_req or m.facade is None or not rec.get("inject"):
                return
            start, length = last_req["range"]
            if length < 8:
                return
            n[0] += 1
            pos = start + 3 + (n[0] % 3)
            val = bytes([0xA0 + n[0] % 16, 0x50 + n[0] % 7])
            dst = (payload[payload.find(b"<DESCN>") + 7:payload.find(b"</DESCN>")])
            src = (payload[payload.find(b"<SRCCN>") + 7:payload.find(b"</SRCCN>")])
            h = GeckoPartialStatusBlockProtocolHandler.report_changes(sim._socket, [(pos, val)], parms=(tr.addr[0], tr.addr[1], dst, src))
            net.push(tr, h.send_bytes)
            rec["injected"].append([round(loop.time(), 2), pos, val.hex()])
        def on_before_deliver(tr, payload):
            """a report of TWO changes inside the range being refreshed arrives right IN FRONT of the final segment of the answer: the
            refresh completes after it, so the refreshed data is what the client must end up with (arrival order)"""
            k = payload.find(b"<DATAS>STATV")
            if k < 0 or len(payload) < k + 15 or payload[k + 13] != 0 or "range" not in last_req or m.facade is None or not rec.get("inject"):
                return
            start, length = last_req["range"]
            if length < 40:
                return
            sb = sim.structure.status_block
            p1, p2 = start + 10, start + 24
            changes = [(p1, bytes([sb[p1] ^ 0xFF, sb[p1 + 1] ^ 0x0F])), (p2, bytes([sb[p2] ^ 0xFF, sb[p2 + 1] ^ 0x0F]))]
            # ... and one change OUTSIDE the range being refreshed (reported while the transfer is under way): the refresh must leave it alone
            p3 = start - 12 if start >= 16 else start + length + 8
            if 0 <= p3 < 1022 and not (start <= p3 < start + length):
                changes.append((p3, bytes([sb[p3] ^ 0x5A, sb[p3 + 1] ^ 0xA5])))
                rec["outside"] = [p3, changes[-1][1].hex()]
            dst = (payload[payload.find(b"<DESCN>") + 7:payload.find(b"</DESCN>")])
            src = (payload[payload.find(b"<SRCCN>") + 7:payload.find(b"</SRCCN>")])
            h = GeckoPartialStatusBlockProtocolHandler.report_changes(sim._socket, changes, parms=(tr.addr[0], tr.addr[1], dst, src))
            tr.deliver(h.send_bytes, fakenet.SIM_ADDR)
            rec.setdefault("in_front", []).append([round(loop.time(), 2), p1, p2])
        net.on_client_datagram = on_client
        net.on_deliver = on_deliver
        net.on_before_deliver = on_before_deliver
        await m.__aenter__()
        for _ in range(800):
            await asyncio.sleep(0.05)
            if m.facade is not None:
                break
        rec["connected"] = m.facade is not None
        await asyncio.sleep(3.0)
        rec["early_reports"] = early["sent"]
        rec["early_acks"] = rec["acks"]
        if m.facade is not None:
            cb, sb = m.facade.spa.struct.status_block, sim.structure.status_block
            rec["early_block_differs_at"] = [i for i in range(min(len(cb), len(sb))) if cb[i] != sb[i]][:6]
        rec["inject"] = True            # from here on: a made-up change behind every refresh answer
        rec["acks"] = 0
        t_end = loop.time() + 400
        checked = 0
        bad = []
        while loop.time() < t_end and rec["connected"]:
            await asyncio.sleep(1.0)
            while checked < len(rec["injected"]) and loop.time() - rec["injected"][checked][0] > 2.0:
                _, pos, hexv = rec["injected"][checked]
                blk = m.facade.spa.struct.status_block
                later = [x for x in rec["injected"][checked + 1:] if abs(x[1] - pos) < 2]
                if not later and blk[pos:pos + 2].hex() != hexv:
                    bad.append({"position": pos, "reported": hexv, "client holds": blk[pos:pos + 2].hex(), "nth": checked + 1})
                checked += 1
        rec["checked"] = checked
        rec["bad"] = bad[:3]
        await asyncio.sleep(3.0)
        rec["inject"] = False
        await asyncio.sleep(3.0)
        if m.facade is not None and rec.get("in_front"):
            cb, sb = m.facade.spa.struct.status_block, sim.structure.status_block
            touched = {q for _, p1, p2 in rec["in_front"] for q in (p1, p1 + 1, p2, p2 + 1)}
            behind = {q for _, pos, _h in rec["injected"] for q in (pos, pos + 1)}
            if rec.get("outside"):
                q, hexv = rec["outside"]
                if cb[q:q + 2].hex() != hexv:
                    rec["outside_bad"] = {"position": q, "reported while a refresh of another range was under way": hexv, "client holds": cb[q:q + 2].hex()}
            rec["in_front_bad"] = [{"position": q, "client holds": cb[q], "the refresh that arrived later brought": sb[q]} for q in sorted(touched - behind) if cb[q] != sb[q]][:4]
        await m.__aexit__(None, None, None)
    vloop.run_virtual(body, stable=True)
    ctx.count("evaluations", max(1, rec.get("checked", 0)))
    ctx.cov["connected_refresh_then_update"] = {"refreshes_followed_by_an_update": rec.get("checked", 0), "acknowledged": rec.get("acks")}
    if not rec.get("connected") or rec.get("checked", 0) < 2:
        ctx.obligation_broken("harness:connected-refresh-then-update", {"connected": rec.get("connected"), "checked": rec.get("checked")})
    elif rec.get("early_block_differs_at") or rec.get("early_acks", 0) < rec.get("early_reports", 0):
        ctx.violation("connected:update-during-start-up", {"kind": "connected-refresh-then-update"},
                      "changes the spa reports while the connection is starting up (during the handshake; while the client's handler of the completed "
                      "connection is busy) are acknowledged and end up in the client's block",
                      {"reports": rec.get("early_reports"), "acknowledgements": rec.get("early_acks"), "block differs from the spa's at": rec.get("early_block_differs_at")})
    elif rec.get("outside_bad"):
        ctx.violation("connected:update-outside-the-range-during-a-refresh", {"kind": "connected-refresh-then-update"},
                      "a change the spa reports while a refresh of ANOTHER range is under way stays in the client's block", rec["outside_bad"])
    elif rec.get("in_front_bad"):
        ctx.violation("connected:update-in-front-of-a-refresh-end", {"kind": "connected-refresh-then-update"},
                      "a report of two changes that arrives in front of the final segment of a refresh answer is applied as a whole before the refresh is "
                      "installed: the client ends with the refreshed data (arrival order)",
                      {"positions": rec["in_front_bad"], "reports": len(rec.get("in_front", []))})
    elif rec["bad"] or rec["acks"] < rec["checked"]:
        ctx.violation("connected:update-behind-a-refresh", {"kind": "connected-refresh-then-update"},
                      "after a refresh answer followed by a partial update of a position in its range the client holds the update (arrival order), and every update is acknowledged",
                      {"lost or overwritten": rec["bad"], "updates": rec["checked"], "acknowledgements": rec["acks"]})


def ev_json(ev):
    if ev[0] == "wire":
        return ["wire", mk_statp(ev[1]), ev[2], ev[3]] + list(ev[4:])
    if ev[0] == "busy":
        return ["busy", mk_statp(ev[1]), mk_statp(ev[2]), ev[3], ev[4]]
    if ev[0] == "statp":
        return ["statp", mk_statp(ev[1])]
    return ["refresh", ev[1], ev[2]]


def run(ctx):
    st = translate.run(["PartialFacts", "SeqCounter", "Skeletons"])
    ctx.cov["translator"] = st
    for k, v in st.items():
        if v != "ok":
            ctx.obligation_broken(f"translate:{k}", v)
    ctx.lean_obligations("GeckoModel.Properties.C05")
    rng = ctx.rng
    lines, impl_ans = [], []
    nh = 25 if ctx.quick else 400
    nontrivial = set()
    # corpus first: the 0.3.19 shape and the no-replay-after-refresh shape
    corpus = [
        [("statp", [(2, b"\xaa\xbb")]), ("refresh", 2, b"\x11\x22"), ("statp", [(5, b"\xcc\xdd")])],
        [("statp", [(10, b"\x01\x02")]), ("statp", [(10, b"\x03\x04")]), ("statp", [])],
        [("statp", [(7, b"\x09")]), ("statp", [(7, b"\x08")])],
        # a refresh overwrites an earlier change, then messages that carry nothing for that position: nothing may come back
        [("statp", [(100, b"\x55\x66")]), ("refresh", 98, b"\xa1\xa2\xa3\xa4\xa5\xa6"), ("statp", [])],
        [("statp", [(100, b"\x55\x66"), (300, b"\x01\x02")]), ("refresh", 0, bytes(range(256)) * 4), ("statp", []), ("statp", [(500, b"\x09\x09")])],
        [("statp", [(40, b"\x11")]), ("refresh", 40, b"\x22\x33"), ("statp", []), ("statp", [(41, b"\x44")])],
        # the LARGEST messages the format allows (the count is one byte: 255 records, a datagram of well over 1000 bytes) and some just
        # below, between ordinary ones: they arrive through the threaded client's socket buffer like any other
        [("statp", [(7, b"\x01\x02")]), ("statp", [((4 * i) % 1020, bytes([i, 255 - i])) for i in range(255)]), ("statp", [(9, b"\x03\x04")]),
         ("statp", [((4 * i + 2) % 1020, bytes([255 - i, i])) for i in range(254)]), ("refresh", 0, bytes(range(200))),
         ("statp", [((4 * i + 1) % 1020, bytes([i, i])) for i in range(230)]), ("statp", [((4 * i) % 1020, bytes([i ^ 0x55, i])) for i in range(200)])],
        # EVERY record count 0..255 once (the count byte follows the verb directly: a decoder that takes the verb off by its letters
        # instead of its length goes wrong exactly for the counts that are one of those letters)
        [("statp", [((7 * n + 4 * i) % 1020, bytes([(n + i) & 255, (3 * n) & 255])) for i in range(n)]) for n in range(256)],
    ]
    hists = corpus + [gen_history(rng, rng.randrange(2, 12 if ctx.quick else 40)) for _ in range(nh)]
    # connected clients: the items of a pack's tables are built over the block and watched (as a facade does)
    try:
        import packs as _packs
        from props.c03 import platform_pairs
        mods_ = _packs.load_tables()
        pairs_ = platform_pairs(mods_)
    except Exception as e:  # noqa
        ctx.obligation_broken("harness:pack-tables", f"{type(e).__name__}: {e}")
        pairs_ = []
    edge = []
    for cm, lm in (rng.sample(pairs_, min(len(pairs_), 6 if ctx.quick else 60)) if pairs_ else []):
        its = {it["key"]: it for it in cm["items"]}
        its.update({it["key"]: it for it in lm["items"]})
        edge.append(((cm["file"], lm["file"]), gen_edge_history(rng, list(its.values()))))
    ctx.cov["connected_client_histories"] = len(edge)
    tabs_plain = [(pairs_[0][0]["file"], pairs_[0][1]["file"])] if pairs_ else [None]
    for n_, h in enumerate(hists):
        block0 = bytes(rng.randrange(256) for _ in range(1024))
        run_history(ctx, h, block0, lines, impl_ans, "h", tables=(tabs_plain[0] if n_ % 2 else None))
    for tabs, h in edge:
        block0 = bytes(rng.randrange(256) for _ in range(1024))
        try:
            run_history(ctx, h, block0, lines, impl_ans, "edge", tables=tabs)
        except Exception as e:  # noqa
            ctx.violation(f"connected-client:{type(e).__name__}", {"client": "async", "block0": block0.hex(), "tables": list(tabs),
                                                                   "history": [[x.hex() if isinstance(x, bytes) else x for x in ev_json(ev)] for ev in h]},
                          "a connected client applies every update", f"{type(e).__name__}: {e}")
        nontrivial.add(("edge", tabs[0].split("-")[0]))
        kinds = tuple(e[0] + (str(min(len(e[1]), 3)) if e[0] == "statp" else "") for e in h)
        rep = len({p for e in h if e[0] == "statp" for p, _ in e[1]}) < sum(len(e[1]) for e in h if e[0] == "statp")
        if len(h) >= 2:
            nontrivial.add((kinds, rep))
    try:
        connected_refresh_then_update(ctx)
    except Exception as e:  # noqa
        ctx.obligation_broken("harness:connected-refresh-then-update", f"{type(e).__name__}: {e}")
    try:
        model = Driver("Driver/C05.lean").run(lines)
    except DriverFailure as e:
        ctx.obligation_broken("driver:C05", e)
        model = None
    if model is not None:
        nd = 0
        for i, (mo, im) in enumerate(zip(model, impl_ans)):
            if im is None:          # an intermediate arrival of a busy window: only the state after the window is compared
                continue
            if mo != im:
                nd += 1
                if nd <= 3:
                    ctx.obligation_broken("correspondence:partial-model-vs-implementation", {"op": lines[i][:200], "model": mo, "impl": im, "index": i})
        ctx.cov["correspondence_ops"] = len(lines)
        ctx.cov["correspondence_disagreements"] = nd
    ctx.sample({"history": [ev_json(e)[0:1] + [x.hex() if isinstance(x, bytes) else x for x in ev_json(e)[1:]] for e in hists[0]]})
    ctx.sample({"ops": lines[2:8], "impl": impl_ans[2:8]})
    ctx.cov["histories"] = len(hists)
    ctx.cov["distinct_nontrivial"] = len(nontrivial)
    ctx.cov["rule"] = ("histories of 2..12 (thorough 2..40) events: STATP with 0..40 (rarely 255) 2-byte records, the simulator's 1-byte form, positions drawn "
                       "mostly from 4 hot positions (repeats), refreshes overwriting hot positions; run on both real clients. evaluations = events; non-trivial = "
                       "history with >= 2 events; distinct by (event kind sequence, whether a position repeats)")
    ctx.assumptions += ["records are well-formed 4-byte (or the simulator's 3-byte) records inside the block; positions >= 1024 would grow the block (as in the model)"]


def replay(inp):
    from common import Ctx
    ctx = Ctx("C05", "quick", 0)
    if inp.get("kind") == "connected-refresh-then-update":
        connected_refresh_then_update(ctx)
        return bool(ctx.violations), ctx.violations[0]["observed"] if ctx.violations else "every update behind a refresh is held"
    hist = []

    def recs_of(hexbody):
        body = bytes.fromhex(hexbody)
        out, i = [], 1
        for _ in range(body[0]):
            pos = struct.unpack(">H", body[i:i + 2])[0]
            out.append((pos, body[i + 2:i + 4]))
            i += 4
        return out
    for ev in inp["history"]:
        if ev[0] == "statp":
            hist.append(("statp", recs_of(ev[1])))
        elif ev[0] == "wire":
            hist.append(("wire", recs_of(ev[1]), ev[2], bytes.fromhex(ev[3])) + tuple(ev[4:]))
        elif ev[0] == "busy":
            hist.append(("busy", recs_of(ev[1]), recs_of(ev[2]), ev[3], bytes.fromhex(ev[4])))
        else:
            hist.append(("refresh", ev[1], bytes.fromhex(ev[2])))
    run_history(ctx, hist, bytes.fromhex(inp["block0"]), [], [], "replay", tables=tuple(inp["tables"]) if inp.get("tables") else None)
    v = [x for x in ctx.violations if x["input"].get("client") == inp.get("client")]
    return bool(v), v[0]["observed"] if v else "block equals reference"
