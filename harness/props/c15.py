"""C15 - discovery lists each spa once, honours the filter, and terminates on time."""
import asyncio
import json

import translate
import qloop
import vloop
from common import Driver, DriverFailure, digest

LEVEL = "proof"
MANIFEST = dict(
    text='Machine-checked Lean 4 proof over a hand model of GeckoAsyncLocator.discover / _async_on_discovered, the hello consume loop '
         'and GeckoHelloProtocolHandler.handle (waits from the regenerated config tables). For EVERY input sequence (arbitrary datagram '
         'bytes, arbitrary relative timing and order of the main loop, the consumer and the network, an event handler that may suspend '
         'arbitrarily long), by invariant induction: no identifier is listed twice; the list is exactly the first handled reply per '
         'identifier that the filter admits, with identifier, name and address intact, in handling order; datagrams are handled in '
         'arrival order, none skipped or repeated; if every datagram is a spa reply (any name bytes, including "|", non-ASCII, empty) the '
         'consumer never dies and every handled reply is accounted for (listed_iff_replied, full strength since the D2 fix 8ce8f9d); '
         'only the requested identifier is listed; the loop returns only for one of its three reasons; an iteration at age >= timeout '
         'never continues; when discover() returns OR is cancelled (clean-up in a finally block since 865a18b) the endpoint is closed, both '
         'LOC tasks are gone and nothing changes afterwards (closed_on_return, closed_on_cancel, frozen_after_return). In the lockstep '
         'tick model (both 0.1 s pollers wake every tick in either order): return by the timeout tick for every input, at the tick '
         'after a spa is listed when an address/identifier was given, at the first tick after the initial wait once any spa is listed. '
         'Tie: trace correspondence with the REAL GeckoAsyncLocator on a virtual-time loop with a fake network of scripted responders '
         '(duplicates, bursts, replies around each deadline +-1 ms and +-1 tick, latin-1 / "|" / empty names, same name, same id from two '
         'addresses, junk and malformed hellos, suspending event handlers, cancellation of discover() at scripted times, address and '
         'identifier filters, callback order shuffled, timer jitter): the observed order of arrivals, consumer pops, handler returns and main-loop polls is fed to the model driver and the '
         'spas in order, return time, closed endpoint, consumer fate, found flag and queue length are compared; the threaded twin\'s '
         '_on_discovered is compared against its own model function; direct monitors on the real locator.'
         " Since session 3: identifier + foreign static address filters; a direct oracle on the blocking locator (each spa once, first reply's fields). Session 4: the blocking locator runs for real (its engine and retry threads, its waiting loop, a scripted OS socket, scaled waits) and the time at which start_discovery(True) returns is checked for five reply patterns. State inventory of both discovery callbacks (discovery_state_inventory). Discovery inside an entered task manager with the housekeeping task woken at every loop step around its start. Round 14: discovery through GeckoAsyncSpaMan.async_locate_spas, several times per manager, filtered / unfiltered, across resets. Round 15: a reset landing 0 / 0.01 / 1.5 s INTO a discovery that the client runs on the manager (locate-reset plans); the endpoint clause counts the endpoints of the discoveries the plan runs.",
    note='Partial: the timing clauses are theorems about the lockstep tick model; real timer skew is outside (jittered runs are still '
         'compared exactly because the model accepts any schedule, and the monitors bound the return time by the skew). Hypothesis kept '
         'visible: spa identifiers contain no "|" and do not start with IOS/AND (true of SPA+MAC identifiers; id_hypothesis_needed shows '
         'it cannot be dropped). Not covered: the 1 Hz broadcast cadence and real broadcast delivery; a cancellation that lands inside '
         'create_datagram_endpoint, before the locator owns a transport; the threaded GeckoLocator beyond its _on_discovered (correspondence only; it lists every spa and uses the filter only for '
         'the found flag). Noted, outside the quantifier: the consumer handles at most one datagram per 0.1 s (more than about 40 spas '
         'answering at once are not all listed by the initial wait), and a datagram that is not a hello stays at the head of the queue and '
         'blocks every later reply (modelled faithfully, not judged). Trusted: Lean kernel; axioms propext/Classical.choice/Quot.sound; '
         'harness/gen_c17.py for the two waits; the virtual loop, fake network and trace instrumentation (clock reads of async_locator, '
         'queue.pop, the event handler).',
    technique='Lean 4 invariant induction over input sequences + lockstep schedule lemmas + trace correspondence on a virtual-time loop',
    design='5/C15',
)

HELLO = b"<HELLO>1</HELLO>"


def reply(ident: bytes, name: bytes) -> bytes:
    return b"<HELLO>" + ident + b"|" + name + b"</HELLO>"


# ----------------------------------------------------------------------------------------------- fake network
class Net:
    """k scripted responders + scripted raw arrivals. Every delivery is logged with its virtual time, in real order."""

    def __init__(self, script, log):
        self.script, self.log = script, log
        self.tr = None
        self.protocol = None
        self.broadcasts = 0

    def attach(self, tr):
        if self.tr is not None:
            return
        self.tr, self.protocol, loop = tr, tr.protocol, tr.loop
        q = tr.protocol.queue
        orig_pop = q.pop

        def pop():
            self.log.append(["pop", loop.ms()])
            return orig_pop()
        q.pop = pop
        orig_close = tr.close

        def close():
            if not tr.closed:
                self.log.append(["close", loop.ms()])
            return orig_close()
        tr.close = close
        for a in self.script.get("arrivals", []):
            loop.call_later(a[0] / 1000, self._deliver, bytes.fromhex(a[1]), (a[2], a[3]))

    def sendto(self, tr, data, addr):
        if data != HELLO:
            return
        n = self.broadcasts
        self.broadcasts += 1
        dest = addr[0] if addr else None
        for r in self.script.get("responders", []):
            if dest not in ("<broadcast>", r["ip"]) and not r.get("hears_all"):
                continue
            lats = r["replies"].get(str(n), r["replies"].get("*", []))
            for lat in lats:
                tr.loop.call_later(lat / 1000, self._deliver, reply(bytes.fromhex(r["id"]), bytes.fromhex(r["name"])), (r["ip"], r["port"]))

    def _deliver(self, payload, addr):
        self.log.append(["dg", self.tr.loop.ms(), payload.hex(), addr[0], addr[1], 0 if self.tr.closed else 1])
        self.tr.deliver(payload, addr)


class _LogClock(vloop._Clock):
    def __init__(self, real, now, log, ms):
        super().__init__(real, now)
        self._log, self._ms = log, ms

    def monotonic(self):
        self._log.append(["clk", self._ms()])
        return self._now()


def run_script(script):
    """Run the REAL GeckoAsyncLocator.discover against the scripted network. Returns the observation dict."""
    sched = script.get("sched", {})
    log = []
    net = Net(script, log)

    async def body(loop):
        import time as real_time
        import geckolib.async_locator as al
        from geckolib.async_tasks import AsyncTasks
        saved = al.time
        al.time = _LogClock(real_time, loop.time, log, loop.ms)
        suspends = list(script.get("suspend_ms", []))
        events = []

        async def on_event(event, **kw):
            d = kw.get("spa_descriptor")
            k = len(events)
            events.append(loop.ms())
            s = suspends[k] if k < len(suspends) else None
            log.append(["event", loop.ms(), 0 if s is None else 1])
            if s is not None:
                await asyncio.sleep(s / 1000)
                log.append(["resume", loop.ms()])

        try:
            tm = AsyncTasks()
            flt = script.get("filter", {})
            kw = {}
            if flt.get("id") is not None:
                kw["spa_identifier"] = bytes.fromhex(flt["id"]).decode("latin1")
            if flt.get("address") is not None:
                kw["spa_address"] = flt["address"]
            loc = al.GeckoAsyncLocator(tm, on_event, **kw)
            out = {}
            task = loop.create_task(loc.discover())
            if script.get("cancel_ms") is not None:
                def do_cancel():
                    if not task.done():
                        log.append(["cancelreq", loop.ms()])
                        task.cancel()
                loop.call_later(script["cancel_ms"] / 1000, do_cancel)
            _done, pend = await asyncio.wait([task], timeout=script.get("give_up_s", 40))
            if pend:
                out["outcome"] = "running"
                task.cancel()
            elif task.cancelled():
                out["outcome"] = "cancelled"
            elif task.exception() is not None:
                out["outcome"] = "raised"
                out["raised"] = f"{type(task.exception()).__name__}: {task.exception()}"
            else:
                out["outcome"] = "returned"
            out["returned"] = out["outcome"] == "returned"
            out["ret_ms"] = loop.ms()
            n_log = len(log)
            out["closed_at_return"] = bool(net.tr is not None and net.tr.closed)
            for _ in range(4):
                await asyncio.sleep(0)
            spas = []
            for d in (loc.spas or []):
                try:
                    spas.append([d.identifier.hex(), d.name.encode("latin1").hex(), d.ipaddress, d.port])
                except Exception as e:  # noqa
                    spas.append([repr(d), f"{type(e).__name__}", "", 0])
            out["spas"] = spas
            out["found"] = bool(loc._has_found_spa)
            out["queue"] = net.protocol.queue.qsize() if net.protocol is not None else -1
            loc_tasks = [t for t in asyncio.all_tasks() if t.get_name().startswith("LOC:")] + \
                        [t for t in tm._tasks if t.get_name().startswith("LOC:") and t.done()]
            loc_tasks = list(dict.fromkeys(loc_tasks))
            out["loc_alive"] = [t.get_name() for t in loc_tasks if not t.done()]
            cons = [t for t in loc_tasks if t.get_name() == "LOC:Hello handler"]
            if not cons:
                out["consumer"] = "missing"
            elif not cons[0].done():
                out["consumer"] = "alive"
            elif cons[0].cancelled():
                out["consumer"] = "cancelled"
            else:
                ex = cons[0].exception()
                out["consumer"] = "finished" if ex is None else ("dead:E_VALUE" if isinstance(ex, ValueError) else
                                                                 "dead:E_ASSERT" if isinstance(ex, AssertionError) else f"dead:{type(ex).__name__}")
            out["transports"] = len(loop.transports)
            out["open_transports"] = sum(1 for t in loop.transports if not t.closed)
            out["event_ms"] = events
            out["log"] = [list(e) for e in log[:n_log]]
            for t in tm._tasks:
                t.cancel()
            return out
        finally:
            al.time = saved

    try:
        with qloop.watchdog(10):
            return qloop.run_q(body, seed=sched.get("seed", 0), shuffle=sched.get("shuffle", False), jitter_ms=sched.get("jitter_ms", 0),
                               network=net)
    except (Exception, qloop.Hang) as e:  # noqa
        return {"error": f"{type(e).__name__}: {e}"}


# ----------------------------------------------------------------------------------------------- waits, as the real config says
def waits_ms():
    import geckolib.config as cfg
    qloop.reset_config()
    return int(cfg.GeckoConfig.DISCOVERY_INITIAL_TIMEOUT_IN_SECONDS * 1000), int(cfg.GeckoConfig.DISCOVERY_TIMEOUT_IN_SECONDS * 1000)


# ----------------------------------------------------------------------------------------------- direct monitors (no model)
def _parse_spa_reply(payload: bytes):
    """what a hello reply MEANS (independent of the library): <HELLO>id|name</HELLO>, name = everything after the first bar"""
    if not (payload.startswith(b"<HELLO>") and payload.endswith(b"</HELLO>") and len(payload) >= 15):
        return None
    c = payload[7:-8]
    if b"|" not in c or c.startswith(b"IOS") or c.startswith(b"AND"):
        return None
    i, n = c.split(b"|", 1)
    return i, n


def monitor(script, res):
    """the property, checked directly on what the real locator did. Returns [(key, expected, observed)]."""
    out = []
    if "error" in res:
        return [("run-failed", "the discovery runs", res["error"])]
    INITIAL, TIMEOUT = waits_ms()
    J = script.get("sched", {}).get("jitter_ms", 0)
    slack = 100 + J
    flt = script.get("filter", {})
    want_id = bytes.fromhex(flt["id"]) if flt.get("id") is not None else None
    restricting = want_id is not None or flt.get("address") is not None
    if res["outcome"] == "raised":
        return [("discover-raised", "discover() returns", res.get("raised"))]
    if res["outcome"] == "running":
        return [("no-return", f"discover() returns by {TIMEOUT + slack} ms", f"still running at {res['ret_ms']} ms")]
    cancelled = res["outcome"] == "cancelled"
    ret = res["ret_ms"]
    spas = [(bytes.fromhex(a), bytes.fromhex(b), c, d) for a, b, c, d in res["spas"]]
    ids = [s[0] for s in spas]
    dgs = [e for e in res["log"] if e[0] == "dg" and e[5] == 1]
    parsed = [(_parse_spa_reply(bytes.fromhex(e[2])), e) for e in dgs]
    junk = any(p is None for p, _ in parsed)
    # listed once
    if len(set(ids)) != len(ids):
        out.append(("listed-twice", "each identifier at most once", [i.hex() for i in ids]))
    # filter
    if want_id is not None and any(i != want_id for i in ids):
        out.append(("filter-ignored", f"only {want_id.hex()}", [i.hex() for i in ids]))
    # fields intact: those of the first reply that arrived from that identifier
    first = {}
    for p, e in parsed:
        if p is not None and p[0] not in first:
            first[p[0]] = (p[0], p[1], e[3], e[4])
    for s in spas:
        if s[0] not in first:
            out.append(("listed-without-reply", "only spas that replied", s[0].hex()))
        elif first[s[0]] != s:
            out.append(("fields-altered", [x.hex() if isinstance(x, bytes) else x for x in first[s[0]]],
                        [x.hex() if isinstance(x, bytes) else x for x in s]))
    # every responding spa is listed (when its reply had time to be handled: one datagram per poll, strictly in order)
    if not junk and not cancelled:
        bar = any(p is not None and b"|" in p[1] for p, _ in parsed)
        first_idx = {}
        for k, (p, e) in enumerate(parsed):
            first_idx.setdefault(p[0], k)
        for i, k in first_idx.items():
            e = parsed[k][1]
            if want_id is not None and i != want_id:
                continue
            due = e[1] + (k + 2) * slack + sum(script.get("suspend_ms", []))
            if due <= ret and i not in ids:
                out.append(("unlisted:bar-in-name" if bar else "unlisted:plain",
                            f"spa {i.hex()} (reply arrived at {e[1]} ms, {k} datagrams before it, return at {ret} ms) is listed",
                            f"listed: {[x.hex() for x in ids]}; hello consumer: {res['consumer']}"))
                break
    # termination
    if cancelled:
        if not res["closed_at_return"] or res["open_transports"]:
            out.append(("endpoint-open:cancelled", "transport closed when discover() is cancelled", f"closed={res['closed_at_return']} open={res['open_transports']}"))
        if res["loc_alive"]:
            out.append(("loc-task-alive:cancelled", "no LOC: task left after a cancelled discover()", res["loc_alive"]))
        return out
    if ret > TIMEOUT + (slack if J else 0):
        out.append(("late-return:timeout", f"return by {TIMEOUT + (slack if J else 0)} ms", f"{ret} ms"))
    resumes = [e[1] for e in res["log"] if e[0] == "resume"]
    evs = [e for e in res["log"] if e[0] == "event"]
    if restricting and evs:
        done = evs[0][1] if evs[0][2] == 0 else (resumes[0] if resumes else None)
        if done is not None and ret > done + slack:
            out.append(("late-return:found", f"return within {slack} ms of the first listed spa ({done} ms)", f"{ret} ms"))
    if evs and ret > max(evs[0][1], INITIAL) + slack:
        out.append(("late-return:initial", f"return by {max(evs[0][1], INITIAL) + slack} ms (first spa listed at {evs[0][1]} ms)", f"{ret} ms"))
    if ret < TIMEOUT:
        if not spas:
            out.append(("early-return:nothing-listed", f"keeps waiting until {TIMEOUT} ms", f"returned at {ret} ms with no spa"))
        elif not restricting and ret <= INITIAL:
            out.append(("early-return:before-initial", f"waits more than {INITIAL} ms", f"returned at {ret} ms"))
    # endpoint and helper tasks
    if not res["closed_at_return"] or res["open_transports"]:
        out.append(("endpoint-open", "transport closed on return", f"closed_at_return={res['closed_at_return']} open={res['open_transports']}"))
    if res["loc_alive"]:
        out.append(("loc-task-alive", "no LOC: task left", res["loc_alive"]))
    return out


def shrink(script, key):
    cur, budget = script, 60
    changed = True
    while changed and budget > 0:
        changed = False
        cands = []
        for i in range(len(cur.get("responders", []))):
            cands.append(dict(cur, responders=cur["responders"][:i] + cur["responders"][i + 1:]))
        for i in range(len(cur.get("arrivals", []))):
            cands.append(dict(cur, arrivals=cur["arrivals"][:i] + cur["arrivals"][i + 1:]))
        for i, r in enumerate(cur.get("responders", [])):
            for k, v in r["replies"].items():
                if len(v) > 1:
                    r2 = dict(r, replies=dict(r["replies"], **{k: v[:1]}))
                    cands.append(dict(cur, responders=cur["responders"][:i] + [r2] + cur["responders"][i + 1:]))
        if cur.get("suspend_ms"):
            cands.append(dict(cur, suspend_ms=[]))
        if cur.get("sched", {}).get("jitter_ms"):
            cands.append(dict(cur, sched=dict(cur["sched"], jitter_ms=0)))
        for cand in cands:
            budget -= 1
            if any(k == key for k, _, _ in monitor(cand, run_script(cand))):
                cur, changed = cand, True
                break
            if budget <= 0:
                break
    return cur


# ----------------------------------------------------------------------------------------------- script generation
SAFE_NAMES = [b"My Spa", b"", b"Spa", b"\xe9t\xe9 \xfc\xdf\xff", b" Spa ", b"A" * 60, b"\x00\x01", b"1", b"IOS", b"</HELLO>", b"My Spa"]
BAR_NAMES = [b"a|b", b"|", b"x||", b"Pool|Spa"]
NAMES = SAFE_NAMES * 4 + BAR_NAMES          # about one name in twelve contains a bar


def _ident(k):
    return b"SPA%02d:00:11:22:33:%02x" % (k, k)


def _resp(k, name, lats, ip=None, ident=None, hears_all=False):
    return {"id": (ident or _ident(k)).hex(), "name": name.hex(), "ip": ip or "10.0.0.%d" % (10 + k), "port": 10022,
            "replies": lats, "hears_all": hears_all}


def gen_script(rng, sched, fam, bar_ok=True):
    INITIAL, TIMEOUT = 4000, 10000
    names = NAMES if bar_ok else SAFE_NAMES
    k = rng.randint(1, 5)
    near = [0, 1, 40, 99, 100, 101, 150, 250, 1000, 2500, INITIAL - 101, INITIAL - 100, INITIAL - 99, INITIAL - 1, INITIAL, INITIAL + 1,
            INITIAL + 99, INITIAL + 100, INITIAL + 101, TIMEOUT - 200, TIMEOUT - 101, TIMEOUT - 100, TIMEOUT - 99, TIMEOUT - 1, TIMEOUT, TIMEOUT + 1]
    sc = {"responders": [], "arrivals": [], "filter": {}, "suspend_ms": [], "sched": sched}
    if fam == "silent":
        return sc
    if fam == "burst":
        n = rng.randint(8, 60)
        t0 = rng.choice([0, 50, 1000, INITIAL - 500])
        for j in range(n):
            sc["responders"].append(_resp(j, rng.choice(SAFE_NAMES), {"0": [t0 + rng.choice([0, 0, 0, 1, 30])]}))
        if rng.random() < 0.3:
            sc["filter"] = {"id": _ident(rng.randrange(n)).hex()}
        return sc
    for j in range(k):
        lats = {}
        for b in range(rng.choice([1, 1, 2, 10])):          # which broadcasts it answers (broadcast n leaves at about n * 1.1 s)
            if rng.random() < 0.85:
                lats[str(b)] = sorted(rng.choice(near) if rng.random() < 0.6 else rng.randint(0, TIMEOUT) for _ in range(rng.choice([1, 1, 2, 3])))
        if fam == "deadline":
            lats = {"0": sorted({rng.choice(near[10:]) for _ in range(rng.randint(1, 2))})}
        sc["responders"].append(_resp(j, rng.choice(names), lats))
    r = rng.random()
    if fam == "twins" or r < 0.15:      # the same identifier from a second address, and a second spa with the same name
        a = sc["responders"][0]
        sc["responders"].append(dict(_resp(90, rng.choice(SAFE_NAMES), {"0": [rng.choice(near[:12])]}, ip="10.0.9.9"), id=a["id"]))
        sc["responders"].append(_resp(91, bytes.fromhex(a["name"]), {"0": [rng.choice(near[:12])]}))
    f = rng.random()
    if f < 0.3:
        sc["filter"] = {"id": rng.choice(sc["responders"])["id"]}
    elif f < 0.4:
        sc["filter"] = {"id": _ident(77).hex()}                      # nobody has it
    elif f < 0.55:
        sc["filter"] = {"address": rng.choice(sc["responders"])["ip"]}
        if rng.random() < 0.5:
            rng.choice(sc["responders"])["hears_all"] = True
    elif f < 0.6:
        x = rng.choice(sc["responders"])
        sc["filter"] = {"id": x["id"], "address": x["ip"]}
    elif f < 0.75:
        # identifier AND static address (how the spa manager builds its locator), the address now answering for another spa
        # (replaced pack / reassigned lease), or other spas' replies reaching the unconnected socket as well
        x, y = rng.choice(sc["responders"]), rng.choice(sc["responders"])
        sc["filter"] = {"id": x["id"] if rng.random() < 0.7 else _ident(77).hex(), "address": y["ip"]}
        if rng.random() < 0.5:
            rng.choice(sc["responders"])["hears_all"] = True
    if fam == "suspend" or rng.random() < 0.15:
        sc["suspend_ms"] = [rng.choice([0, 0, 50, 100, 150, 1000, 5000]) for _ in range(rng.randint(1, 3))]
    if fam == "cancel":
        sc["cancel_ms"] = rng.choice([1, 50, 100, 101, 150, 1000, 3999, 4000, 4001, 4050, 4100, 9999, 10000, rng.randint(1, 10000)])
    if fam == "junk":
        for _ in range(rng.randint(1, 2)):
            p = rng.choice([b"<HELLO>1</HELLO>", b"<HELLO>IOSabc</HELLO>", b"<HELLO>nobar</HELLO>", b"<PACKT>x</PACKT>", b"", b"<HELLO>",
                            b"<HELLO></HELLO>", b"<HELLO>ANDx|y</HELLO>"])
            sc["arrivals"].append([rng.choice(near[:14]), p.hex(), "10.0.0.99", 10022])
    return sc


FAMILIES = ["basic", "basic", "deadline", "deadline", "twins", "suspend", "burst", "junk", "silent", "cancel"]


def scripts(ctx, n):
    out = []
    for i in range(n):
        fam = FAMILIES[i % len(FAMILIES)] if i >= 2 else ["silent", "basic"][i]
        sched = {"seed": ctx.rng.randrange(1 << 30), "shuffle": True, "jitter_ms": ctx.rng.choice([0, 0, 30])}
        out.append((fam, gen_script(ctx.rng, sched, fam)))
    return out


# ----------------------------------------------------------------------------------------------- trace correspondence
def hx(b):
    return b.hex() if b else "-"


def model_lines(script, res):
    """the observed order of atomic steps -> op lines; returns (lines, expected answers (None = don't care))"""
    flt = script.get("filter", {})
    fid = hx(bytes.fromhex(flt["id"])) if flt.get("id") else "none"
    INITIAL, TIMEOUT = waits_ms()
    lines = [f"cfg 1000 {fid} {1 if flt.get('address') else 0}"]
    expect = [f"ok {INITIAL} {TIMEOUT}"]
    cur = 0
    log = res["log"]
    polls = []
    i = 0
    while i < len(log):
        e = log[i]
        if e[1] > cur:
            lines.append(f"tick {e[1] - cur}"); expect.append("ok"); cur = e[1]
        if e[0] == "dg":
            lines.append(f"dg {hx(bytes.fromhex(e[2]))} {hx(e[3].encode('latin1'))} {e[4]}"); expect.append("ok")
        elif e[0] == "clk":
            while i + 1 < len(log) and log[i + 1][0] == "clk" and log[i + 1][1] == e[1]:
                i += 1
            lines.append("poll"); expect.append(None); polls.append(len(lines) - 1)
        elif e[0] == "pop":
            nxt = log[i + 1] if i + 1 < len(log) else None
            susp = 1 if (nxt is not None and nxt[0] == "event" and nxt[2] == 1) else 0
            lines.append(f"consume {susp}"); expect.append("ok")
        elif e[0] == "resume":
            lines.append("resume"); expect.append("ok")
        elif e[0] == "close" and res["outcome"] == "cancelled":
            lines.append("cancel"); expect.append(f"cancelled:{e[1]}")     # the `finally` block ran here, without an exit iteration
        i += 1
    for j in polls[:-1]:
        expect[j] = "running"
    if polls:
        expect[polls[-1]] = f"returned:{res['ret_ms']}" if res["returned"] else "running"
    closes = [e[1] for e in log if e[0] == "close"]
    lines.append("dump")
    spas = ",".join(f"{hx(bytes.fromhex(a))}/{hx(bytes.fromhex(b))}/{hx(c.encode('latin1'))}/{d}" for a, b, c, d in res["spas"]) or "none"
    main = f"returned:{res['ret_ms']}" if res["returned"] else \
        (f"cancelled:{closes[0]}" if res["outcome"] == "cancelled" and closes else "running")
    expect.append(f"main={main} closed={1 if res['closed_at_return'] else 0} bcast={1 if 'LOC:Broadcast loop' in res['loc_alive'] else 0} "
                  f"consumer={res['consumer']} found={1 if res['found'] else 0} queue={res['queue']} spas={spas}")
    return lines, expect


def correspondence(ctx, runs):
    lines, expect, owner = [], [], []
    for idx, (fam, script, res) in enumerate(runs):
        if "error" in res:
            ctx.obligation_broken("correspondence:script-run-failed", {"script": script, "error": res["error"]})
            return
        l, e = model_lines(script, res)
        lines += l
        expect += e
        owner += [idx] * len(l)
    try:
        model = Driver("Driver/C15.lean").run(lines)
    except DriverFailure as e:
        ctx.obligation_broken("driver:C15", e)
        return
    ctx.cov["correspondence_op_lines"] = len(lines)
    for i, (m, e) in enumerate(zip(model, expect)):
        if e is not None and m != e:
            fam, script, res = runs[owner[i]]
            what = "final-state(spas,return,closed,consumer,found,queue)" if lines[i] == "dump" else \
                   "return-time" if lines[i] == "poll" else "cancel-cleanup" if lines[i] == "cancel" else "config-waits" if lines[i].startswith("cfg") else "op"
            ctx.obligation_broken("correspondence:" + what, {"script": script, "op_index": i, "op": lines[i], "model": m, "impl": e,
                                                             "log_tail": res["log"][-12:]})
            return
        if lines[i] == "dump":
            ctx.hist("model_consumer_fate", m.split(" ")[3])
    return True


# ----------------------------------------------------------------------------------------------- the threaded twin's _on_discovered
def sync_case(rng):
    k = rng.randint(1, 5)
    spas = [(_ident(j), rng.choice(NAMES), ("10.0.0.%d" % (10 + j), 10022)) for j in range(k)]
    seq = [rng.choice(spas) for _ in range(rng.randint(1, 10))]
    if rng.random() < 0.3:
        seq.insert(rng.randrange(len(seq) + 1), (spas[0][0], b"other", ("10.9.9.9", 1)))
    f = rng.random()
    to_find = None if f < 0.4 else (rng.choice(spas)[0] if f < 0.85 else _ident(77))
    as_bytes = rng.random() < 0.3
    static_ip = rng.choice([None, None, "", "10.0.0.10"])
    return {"to_find": to_find.hex() if to_find else None, "as_bytes": as_bytes, "static_ip": static_ip,
            "seq": [[reply(i, n).hex(), a[0], a[1]] for i, n, a in seq]}


def run_sync(case):
    from geckolib.locator import GeckoLocator
    from geckolib.driver import GeckoHelloProtocolHandler
    tf = bytes.fromhex(case["to_find"]) if case["to_find"] else None
    kw = {}
    if tf is not None:
        kw["spa_to_find"] = tf if case["as_bytes"] else tf.decode("latin1")
    if case["static_ip"] is not None:
        kw["static_ip"] = case["static_ip"]
    out = []
    try:
        loc = GeckoLocator("00000000-0000-0000-0000-000000000001", **kw)
        h = GeckoHelloProtocolHandler.broadcast(on_handled=loc._on_discovered)
    except Exception as e:  # noqa
        return [f"raised {type(e).__name__}: {e}"] * len(case["seq"])
    for p, ip, port in case["seq"]:
        payload, sender = bytes.fromhex(p), (ip, port)
        try:
            if not h.can_handle(payload, sender):
                out.append("unhandled")
                continue
            h.handle(payload, sender)
            h.handled(sender)
            spas = ",".join(f"{hx(d.identifier)}/{hx(d.name.encode('latin1'))}/{hx(d.ipaddress.encode('latin1'))}/{d.port}" for d in loc.spas) or "none"
            out.append(f"found={1 if loc._has_found_spa else 0} spas={spas}")
        except ValueError:
            out.append("err:E_VALUE")
        except AssertionError:
            out.append("err:E_ASSERT")
        except Exception as e:  # noqa
            out.append(f"raised {type(e).__name__}: {e}")
    return out


def check_sync(ctx, n):
    lines, expect = [], []
    for _ in range(n):
        case = sync_case(ctx.rng)
        tf = hx(bytes.fromhex(case["to_find"])) if case["to_find"] else "none"
        lines.append(f"sync {tf} {1 if case['static_ip'] else 0}")
        expect.append("ok")
        results = run_sync(case)
        for (p, ip, port), r in zip(case["seq"], results):
            lines.append(f"sd {hx(bytes.fromhex(p))} {hx(ip.encode('latin1'))} {port}")
            expect.append(r)
        ctx.count("evaluations")
        # direct oracle on the blocking locator (no model): each responding spa once, with the first reply's fields (this class
        # lists every spa; its spa_to_find only ends the wait early - see the manifest note)
        want, seen = [], set()
        for k, ((p, ip, port), r) in enumerate(zip(case["seq"], results)):
            pr = _parse_spa_reply(bytes.fromhex(p))
            if pr is not None and pr[0] not in seen and not r.startswith(("err:", "raised", "unhandled")):
                seen.add(pr[0])
                want.append(f"{hx(pr[0])}/{hx(pr[1])}/{hx(ip.encode('latin1'))}/{port}")
            if r.startswith("found="):
                got = r.split("spas=")[1]
                got_l = [] if got == "none" else got.split(",")
                ids = [g.split("/")[0] for g in got_l]
                if len(set(ids)) != len(ids) or got_l != want:
                    ctx.violation("sync:" + ("listed-twice" if len(set(ids)) != len(ids) else "wrong-list"),
                                  {"kind": "sync", "case": dict(case, seq=case["seq"][:k + 1])}, want, got_l)
                    break
    try:
        model = Driver("Driver/C15.lean").run(lines)
    except DriverFailure as e:
        ctx.obligation_broken("driver:C15", e)
        return
    ctx.cov["threaded_twin_ops"] = len(lines)
    for l, m, e in zip(lines, model, expect):
        if m != e:
            ctx.obligation_broken("correspondence:threaded-twin-on_discovered", {"op": l, "model": m, "impl": e})
            return


# ---------------------------------------------------------------------- discovery inside a LIVE task manager
def run_with_tidy_wake(k):
    """discover() inside an ENTERED task manager (its housekeeping task runs, as under GeckoAsyncSpaMan), with the configuration mode
    re-selected - which wakes every configuration-aware sleeper, the housekeeping task among them - at the k-th event-loop step
    after discovery was started.  Returns the names of LOC: tasks still alive after discover() returned, the spas listed, closed?"""
    script = {"responders": [_resp(1, b"Spa", {"0": [100]})], "arrivals": [], "filter": {}, "suspend_ms": [],
              "sched": {"seed": 0, "shuffle": False, "jitter_ms": 0}}
    log = []
    net = Net(script, log)

    async def body(loop):
        import geckolib.async_locator as al
        import geckolib.config as cfg
        from geckolib.async_tasks import AsyncTasks

        async def on_event(event, **kw):
            pass
        tm = AsyncTasks()
        await tm.__aenter__()
        await asyncio.sleep(0.3)
        loc = al.GeckoAsyncLocator(tm, on_event)
        before = set(asyncio.all_tasks())
        if k < 0:
            # the wake-up comes |k| loop steps BEFORE discovery starts (the housekeeping task is then in mid-flight when discover() registers its helpers)
            cfg.set_config_mode(False)
            for _ in range(-k - 1):
                await asyncio.sleep(0)
        task = loop.create_task(loc.discover())
        n = [0]

        def step():
            if n[0] == k:
                cfg.set_config_mode(False)
            n[0] += 1
            if n[0] <= k:
                loop.call_soon(step)
        loop.call_soon(step)
        await asyncio.wait([task], timeout=40)
        for _ in range(4):
            await asyncio.sleep(0)
        alive = sorted(t.get_name() for t in asyncio.all_tasks() if t not in before and t.get_name().startswith("LOC:") and not t.done())
        out = {"returned": task.done() and not task.cancelled() and task.exception() is None, "loc_alive": alive,
               "spas": len(loc.spas or []), "closed": bool(net.tr is not None and net.tr.closed)}
        for t in asyncio.all_tasks():
            if t is not asyncio.current_task():
                t.cancel()
        return out
    try:
        with qloop.watchdog(10):
            return qloop.run_q(body, seed=0, shuffle=False, jitter_ms=0, network=net)
    except (Exception, qloop.Hang) as e:  # noqa
        return {"error": f"{type(e).__name__}: {e}"}


def check_tidy_wakes(ctx, only=None):
    for k in range(-8, 14):
        if only is not None and k != only:
            continue
        res = run_with_tidy_wake(k)
        ctx.count("evaluations")
        inp = {"kind": "tidy-wake", "wake_at_loop_step": k}
        if "error" in res:
            ctx.violation("tidy-wake:raised", inp, "discovery runs", res["error"])
            continue
        ctx.hist("tidy_wake", "ok" if not res["loc_alive"] and res["returned"] and res["closed"] else "bad")
        if res["loc_alive"] or not res["returned"] or not res["closed"] or res["spas"] != 1:
            ctx.violation("tidy-wake:" + ("loc-task-alive" if res["loc_alive"] else "wrong-outcome"), inp,
                          "discover() returns with one spa listed, its endpoint closed and its helper tasks gone (task manager live)", res)


# ---------------------------------------------------------------------- the blocking locator, for real (threads, waiting loop)
class _ScriptSock:
    """stands in for the OS socket of the blocking locator: scripted replies become readable at their time (seconds after the socket
    was created); everything else - the engine thread, the broadcast retry thread, the hello handler, the waiting loop - is real"""

    def __init__(self, plan):
        import time as _t
        self.t0 = _t.monotonic()
        self.plan = sorted(plan)
        self.sent, self.closed = [], False

    def settimeout(self, t):
        pass

    def setsockopt(self, *a):
        pass

    def close(self):
        self.closed = True

    def sendto(self, data, dest):
        self.sent.append((data, dest))

    def recvfrom(self, n):
        import socket as pysocket
        import time as _t
        if self.plan and self.plan[0][0] <= _t.monotonic() - self.t0:
            _, payload, addr = self.plan.pop(0)
            return payload, addr
        _t.sleep(0.005)
        raise pysocket.timeout()


SYNC_INITIAL, SYNC_TIMEOUT = 1.0, 2.2       # scaled waits for the real-thread runs (seconds)


def sync_real_cases():
    a, b, c = _ident(1), _ident(2), _ident(3)
    A, B, C = ("10.0.0.11", 10022), ("10.0.0.12", 10022), ("10.0.0.13", 10022)
    R = lambda i, n, at, addr: (at, reply(i, n), addr)
    return [
        # (name, constructor filter, replies, (earliest, latest) return time, identifiers listed)
        ("requested-first-another-right-behind", {"spa_to_find": a}, [R(a, b"Spa A", 0.10, A), R(b, b"Spa B", 0.101, B)], (0.05, 0.65), None),
        ("requested-first-another-right-behind:string-id", {"spa_to_find": a.decode("latin1")}, [R(a, b"Spa A", 0.10, A), R(b, b"Spa|B", 0.101, B), R(c, b"C", 0.102, C)], (0.05, 0.65), None),
        ("requested-second", {"spa_to_find": b}, [R(a, b"Spa A", 0.10, A), R(b, b"Spa B", 0.20, B)], (0.15, 0.75), None),
        ("no-filter-one-answers", {}, [R(a, b"Spa A", 0.10, A), R(a, b"Spa A", 0.15, A)], (SYNC_INITIAL - 0.05, SYNC_INITIAL + 0.6), [a]),
        ("requested-never-answers", {"spa_to_find": c}, [R(a, b"Spa A", 0.10, A)], (SYNC_INITIAL - 0.05, SYNC_TIMEOUT + 0.6), None),
    ]


def run_sync_real(filt, plan):
    """returns (seconds until start_discovery(True) returned, identifiers listed, socket closed, live helper threads)"""
    import socket as pysocket
    import threading
    import time as _t
    from geckolib.locator import GeckoLocator
    from geckolib.config import GeckoConfig
    socks = []
    real_socket = pysocket.socket

    def factory(*a, **k):
        sk = _ScriptSock(plan)
        socks.append(sk)
        return sk
    saved = (GeckoConfig.DISCOVERY_INITIAL_TIMEOUT_IN_SECONDS, GeckoConfig.DISCOVERY_TIMEOUT_IN_SECONDS)
    before = set(threading.enumerate())
    pysocket.socket = factory
    GeckoConfig.DISCOVERY_INITIAL_TIMEOUT_IN_SECONDS, GeckoConfig.DISCOVERY_TIMEOUT_IN_SECONDS = SYNC_INITIAL, SYNC_TIMEOUT
    try:
        t0 = _t.monotonic()
        loc = GeckoLocator("00000000-0000-0000-0000-000000000001", **filt)
        loc.start_discovery(True)
        took = _t.monotonic() - t0
        ids = [d.identifier for d in loc.spas]
        loc.complete()
        _t.sleep(0.05)
    finally:
        pysocket.socket = real_socket
        GeckoConfig.DISCOVERY_INITIAL_TIMEOUT_IN_SECONDS, GeckoConfig.DISCOVERY_TIMEOUT_IN_SECONDS = saved
    live = [t for t in threading.enumerate() if t not in before and t.is_alive()]
    return took, ids, all(sk.closed for sk in socks), len(live)


def check_sync_real(ctx, only=None):
    """the blocking locator's own waiting loop on real threads: when does `start_discovery(True)` RETURN"""
    for name, filt, plan, (lo, hi), want_ids in sync_real_cases():
        if only is not None and name != only:
            continue
        inp = {"kind": "sync-real", "case": name, "filter": {k: (v.hex() if isinstance(v, bytes) else v) for k, v in filt.items()},
               "replies": [[t, p.hex(), list(a)] for t, p, a in plan], "initial_wait_s": SYNC_INITIAL, "timeout_s": SYNC_TIMEOUT}
        bad = None
        for attempt in range(2):                      # real time: a result outside the window is confirmed once before it counts
            try:
                took, ids, closed, live = run_sync_real(filt, list(plan))
            except Exception as e:  # noqa
                bad = ("raised", f"{type(e).__name__}: {e}")
                break
            ctx.count("evaluations")
            if len(set(ids)) != len(ids) or (want_ids is not None and ids != want_ids):
                bad = ("listed", [i.hex() for i in ids])
                break
            if not closed or live:
                bad = ("left-behind", {"socket_closed": closed, "live_threads": live})
                break
            if lo <= took <= hi:
                bad = None
                break
            bad = ("return-time", round(took, 2))
        ctx.hist("sync_real", name if bad is None else name + ":" + bad[0])
        if bad is not None:
            what = {"return-time": f"returns between {lo} and {hi} s (requested spa answered -> at once; otherwise after the initial wait {SYNC_INITIAL} s once a spa "
                                   f"has answered; always within the timeout {SYNC_TIMEOUT} s)",
                    "listed": "each responding spa once", "left-behind": "endpoint closed, helper threads gone", "raised": "the run returns"}[bad[0]]
            ctx.violation(f"sync-real:{bad[0]}:{name.split(':')[0]}", inp, what, bad[1])


# ----------------------------------------------------------------------------------------------- run / replay
D2_SCRIPT = {"responders": [_resp(1, b"Pool|Spa", {"0": [100]})], "arrivals": [], "filter": {}, "suspend_ms": [],
             "sched": {"seed": 0, "shuffle": False, "jitter_ms": 0}}


def run_manager_discoveries(plan):
    """discovery as the REAL CLIENT runs it: `GeckoAsyncSpaMan.async_locate_spas` (its own wiring of locator, task manager and
    events) against the real simulator on the virtual network, SEVERAL times on one manager - unfiltered, filtered, again after a
    reset - the way the sequence pump and the reconnect button do. plan = [("locate", address|None, identifier|None) | ("reset",)]"""
    import fakenet
    import vloop
    from geckolib import GeckoAsyncSpaMan
    from props import c10
    out = []

    async def body(loop):
        class Man(GeckoAsyncSpaMan):
            async def handle_event(self, event, **kw):
                pass
        sim = fakenet.make_sim(c10.SNAP)
        loop.network = fakenet.Network(loop, sim, phases=[], seed=1)
        m = Man("uuid-1", spa_identifier=None, spa_address=None, spa_name=None)      # nothing configured: the pump stays idle
        await m.__aenter__()
        for step in plan:
            if step[0] == "reset":
                await m.async_reset()
                out.append({"step": "reset"})
                continue
            t0 = loop.time()
            rec = {"step": list(step)}
            try:
                if step[0] == "locate-reset":       # the reconnect button while a discovery is listening: the reset lands `step[3]` s into it
                    job = asyncio.ensure_future(m.async_locate_spas(step[1], step[2]))
                    await asyncio.sleep(step[3])
                    await m.async_reset()
                    found = await asyncio.wait_for(job, 60)
                else:
                    found = await asyncio.wait_for(m.async_locate_spas(step[1], step[2]), 60)
                rec["spas"] = [[d.identifier_as_string, d.name, d.ipaddress] for d in (found or [])]
            except Exception as e:  # noqa
                rec["raised"] = f"{type(e).__name__}: {e}"
            rec["took_s"] = round(loop.time() - t0, 2)
            await asyncio.sleep(0.3)
            rec["open_endpoints"] = sum(1 for t in loop.transports if not t.closed and t.kw.get("allow_broadcast") and not getattr(t, "task_name", "").startswith("SPAMAN"))      # the endpoints of the discoveries run here (after a reset the manager's pump may run its own, or go on to connect)
            rec["loc_tasks"] = sorted(t.get_name() for t in asyncio.all_tasks() if t.get_name().startswith("LOC:") and not t.done())
            out.append(rec)
        await m.__aexit__(None, None, None)
    vloop.run_virtual(body, stable=True)
    return out


MANAGER_PLANS = [
    [("locate", None, None), ("locate", "10.0.0.9", None), ("reset",), ("locate", None, None), ("locate", "10.0.0.9", None), ("locate", "10.0.0.9", None)],
    [("locate", None, "IDENT"), ("locate", None, "IDENT"), ("reset",), ("locate", None, "IDENT"), ("locate", None, None)],
    [("locate", "10.0.0.9", "IDENT"), ("reset",), ("locate", "10.0.0.9", "IDENT"), ("reset",), ("locate", "10.0.0.9", "IDENT")],
    [("locate-reset", None, None, 0.0), ("locate-reset", None, "IDENT", 0.0), ("locate-reset", "10.0.0.9", None, 0.0), ("locate", None, None)],
    [("locate-reset", None, None, 0.01), ("locate-reset", None, "IDENT", 0.01), ("locate-reset", None, None, 1.5), ("locate", "10.0.0.9", "IDENT")],
]


def check_manager_discoveries(ctx, only=None):
    import geckolib.config as cfg
    from props import c10
    for pi, plan in enumerate(MANAGER_PLANS):
        if only is not None and pi != only:
            continue
        plan = [tuple(c10.IDENT if x == "IDENT" else x for x in st) for st in plan]
        try:
            recs = run_manager_discoveries(plan)
        except Exception as e:  # noqa
            ctx.violation(f"manager-discovery:raised:{pi}", {"kind": "manager-discovery", "plan": pi}, "the discoveries run", f"{type(e).__name__}: {e}")
            continue
        limit = cfg.GeckoConfig.DISCOVERY_TIMEOUT_IN_SECONDS + 1.5
        for k, r in enumerate(recs):
            if r["step"] == "reset":
                continue
            if r["step"][0] == "locate-reset":
                ctx.hist("manager_discoveries", "reset-while-listening")
            ctx.count("evaluations")
            ctx.hist("manager_discoveries", "filtered" if (r["step"][1] or r["step"][2]) else "unfiltered")
            ok = (r.get("spas") is not None and len(r["spas"]) == 1 and r["spas"][0][0] == c10.IDENT and r["spas"][0][2] == "10.0.0.9"
                  and r["took_s"] <= limit and r["open_endpoints"] == 0 and not r["loc_tasks"])
            if not ok:
                ctx.violation(f"manager-discovery:{'filtered' if (r['step'][1] or r['step'][2]) else 'unfiltered'}:run-{k}",
                              {"kind": "manager-discovery", "plan": pi, "steps": [list(x) for x in plan[:k + 1]]},
                              f"the one spa on the network is listed once (identifier {c10.IDENT}, address 10.0.0.9) within {limit} s; endpoint closed, no LOC task left",
                              {k2: r.get(k2) for k2 in ("spas", "raised", "took_s", "open_endpoints", "loc_tasks")})
                break


def run(ctx):
    st = translate.run(["ConfigTables", "Skeletons"])
    ctx.cov["translator"] = st
    if st["ConfigTables"] != "ok":
        ctx.obligation_broken("translate:ConfigTables", st["ConfigTables"])
    ctx.lean_obligations("GeckoModel.Properties.C15")
    try:
        import geckolib.async_locator, geckolib.locator, geckolib.config, geckolib.async_tasks  # noqa
    except BaseException as e:  # noqa   (a tree that does not even import: nothing can be discovered)
        ctx.violation("import-failed", {"kind": "import"}, "geckolib imports", f"{type(e).__name__}: {e}")
        ctx.cov["rule"] = "the library under test could not be imported"
        return

    runs = [("d2-regression", D2_SCRIPT, run_script(D2_SCRIPT))]
    hangs = 0
    for fam, script in scripts(ctx, 400 if ctx.quick else 20000):
        res = run_script(script)
        runs.append((fam, script, res))
        if str(res.get("error", "")).startswith("Hang"):
            hangs += 1
            if hangs >= 2:          # the tree under test loops without suspending: two witnesses are enough
                ctx.cov["stopped_after_hangs"] = hangs
                break
    seen, nontrivial = set(), set()
    for fam, script, res in runs:
        ctx.count("evaluations")
        ctx.hist("script_families", fam)
        ctx.hist("jitter_ms", script["sched"]["jitter_ms"])
        if "error" not in res:
            ctx.hist("real_consumer_fate", res["consumer"])
            ctx.hist("outcome", res["outcome"])
            ctx.hist("spas_listed", min(len(res["spas"]), 9))
            ctx.hist("return_second", res["ret_ms"] // 1000)
            pops = sum(1 for e in res["log"] if e[0] == "pop")
            if pops >= 2 and (pops > len(res["spas"]) or res["consumer"].startswith("dead")):
                nontrivial.add(digest(res["log"]))
        for key, want, got in monitor(script, res):
            if key in seen:
                continue
            seen.add(key)
            small = script if key in ("run-failed", "no-return") else shrink(script, key)
            w2 = [(k, w, g) for k, w, g in monitor(small, run_script(small)) if k == key]
            ctx.violation(key, {"kind": "script", "script": small}, w2[0][1] if w2 else want, w2[0][2] if w2 else got)
    ctx.cov["datagrams_delivered"] = sum(1 for _, _, r in runs for e in r.get("log", []) if e[0] == "dg")
    ctx.cov["distinct_nontrivial"] = len(nontrivial)
    if st["ConfigTables"] == "ok":
        correspondence(ctx, runs)
    check_sync(ctx, 200 if ctx.quick else 8000)
    check_sync_real(ctx)
    check_tidy_wakes(ctx)
    try:
        check_manager_discoveries(ctx)
    except Exception as e:  # noqa
        ctx.obligation_broken("harness:manager-discoveries", f"{type(e).__name__}: {e}")
    fam, script, res = runs[2]
    ctx.sample({"script": {k: script[k] for k in ("responders", "filter", "suspend_ms", "sched")},
                "observed": {k: res.get(k) for k in ("spas", "ret_ms", "consumer", "found")}, "log_head": res.get("log", [])[:8]})
    ctx.cov["rule"] = ("a case is one scripted network (responders answering the locator's broadcasts with scripted latencies / duplicates, "
                       "raw arrivals, filter, event-handler suspensions) run against the real GeckoAsyncLocator.discover under one seeded "
                       "schedule, or one reply sequence stepped through the threaded GeckoLocator._on_discovered; distinct non-trivial = "
                       "distinct real event logs in which the consumer handled at least two datagrams and at least one of them was not "
                       "listed (duplicate / filtered) or killed the consumer")
    ctx.assumptions += ["timing clauses are about the lockstep tick model; real timer skew is outside (jittered runs are compared on the observed schedule)",
                        "asyncio: cancellation delivered at the next suspension point; datagrams arrive intact or not at all",
                        "a reply 'had time to be handled' (monitor) when it arrived (k+2)*(100 ms + jitter) before the return, k datagrams before it"]


def replay(inp):
    if inp.get("kind") == "manager-discovery":
        from common import Ctx
        c = Ctx("C15", "quick", 0)
        check_manager_discoveries(c, only=inp["plan"])
        return bool(c.violations), c.violations[0]["observed"] if c.violations else "every run listed the spa"
    if inp.get("kind") == "import":
        try:
            import geckolib.async_locator, geckolib.locator, geckolib.config, geckolib.async_tasks  # noqa
            return False, "imports"
        except BaseException as e:  # noqa
            return True, f"{type(e).__name__}: {e}"
    if inp.get("kind") == "tidy-wake":
        from common import Ctx
        c = Ctx("C15", "quick", 0)
        check_tidy_wakes(c, only=inp["wake_at_loop_step"])
        return bool(c.violations), (c.violations[0]["observed"] if c.violations else "helper tasks gone")
    if inp.get("kind") == "sync-real":
        from common import Ctx
        c = Ctx("C15", "quick", 0)
        check_sync_real(c, only=inp["case"])
        return bool(c.violations), (c.violations[0]["observed"] if c.violations else "returns in time")
    if inp.get("kind") == "sync":
        case = inp["case"]
        results = run_sync(case)
        last = results[-1] if results else ""
        if not last.startswith("found="):
            return False, last
        got = last.split("spas=")[1]
        ids = [] if got == "none" else [g.split("/")[0] for g in got.split(",")]
        want = []
        for p_, ip, port in case["seq"]:
            pr = _parse_spa_reply(bytes.fromhex(p_))
            if pr is not None and hx(pr[0]) not in want:
                want.append(hx(pr[0]))
        return ids != want, {"listed": ids, "expected": want}
    script = inp["script"]
    res = run_script(script)
    v = monitor(script, res)
    return bool(v), [{"key": k, "expected": w, "observed": g} for k, w, g in v] or \
        {"property": "holds on this script", "spas": res.get("spas"), "ret_ms": res.get("ret_ms"), "consumer": res.get("consumer")}
