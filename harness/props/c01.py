"""C01 - status-block transfer installs the spa's bytes or nothing, under any faults."""
import asyncio

import translate
import vloop
from common import Driver, DriverFailure
from props.c03 import checksum
from props.c16 import _Desc

LEVEL = "proof"
MANIFEST = dict(
    text="Lean 4 theorems for all block contents, all (start, length), all event streams of genuine segments (lost / duplicated / re-ordered / delayed across "
         "attempts) and timeouts, by induction with the assembly invariant 'collected = a prefix of the chain': the async GeckoAsyncStructure.get and the "
         "threaded GeckoStructure assembler either install exactly the spa's bytes (installed_bytes: every requested byte equals the spa's, every other byte "
         "unchanged, size unchanged) or leave the client block untouched, and send at most retry / 1+budget requests; on a fault-free network the transfer "
         "succeeds for every start and every positive length (faultfree_success, full statement since the fix of D1). The simulator's per-segment arithmetic "
         "is translated from the source on every run; the assemblers are hand models tied by differential correspondence with the real classes driven "
         "by the real simulator's segment handlers through real STATV encode/decode under seeded fault streams."
         " Since session 3: one long-lived simulator built by its real constructor serves the whole run; segments travel framed and are unwrapped by the real packet handler; the spa block carries the transport's own tags; an identical request repeated after the block changed must be served with the current bytes. Session 4: the same fault streams also run through the real engine loop (_thread_func, one iteration at a time) on a socket whose buffer holds whole bursts of datagrams (every segment doubled on every single-segment range): same outcome as the datagram-by-datagram run, property read directly. Also histories on ONE long-lived awaitable structure (transfers interleaved with partial-update patches, wholesale loads and overlapping transfers) and async_get_keeps_no_state_between_transfers / threaded_assembler_state_inventory over the regenerated skeletons. Also two transfers requested concurrently on one connection with a re-ordered opening segment, and transfer_holds_the_connection_for_all_its_attempts. Session 5: install_needs_in_sequence_final_segment (+ _traces): in both assemblers replace_status_block_segment is reachable only on a path on which the segment in hand was in sequence AND final (guard monitor over the regenerated skeletons, onlyUnderBothGuards_sound); the fake OS socket truncates a datagram to the reader's buffer. Round 15: refreshes of a CONNECTED blocking client with both of its threads stepped (ping thread calls refresh() once per ping period) and the answer to one refresh lost; every segment doubled back to back also through the awaitable structure, on short chains. Round 16: skeleton theorem refresh_only_when_connected over the regenerated GeckoSpa.refresh (the blocking client's session glue is in the skeleton inventory). Round 17: a change the spa reports is applied BETWEEN two segments of a transfer, at bytes outside the requested range, and must still be there afterwards (check_update_during_transfer).",
    note="Trusted: Lean kernel, translator (cross-checked by sweeping (start,len) against the real simulator's queued segments), correspondence harness "
         "(virtual-time loop for the async client; stepped engine with patched clock for the threaded one). Datagram corruption and late segments of a "
         "different transfer window are outside the fault model (as in the property). Lock / polling / timeout timing is C06.",
    technique="Lean 4 induction with a prefix invariant over source-translated chain arithmetic + differential correspondence of both real assemblers",
    design="5/C01")

SENDER = ("10.0.0.1", 10022, _Desc.identifier, b"IOSclient")
_SIM = None
_FRAMED = {}      # unwrapped segment content -> the framed datagram the simulator queued for it


def real_chain(spa, start, length):
    """segments the REAL simulator queues for STATU(start, length): [(idx, next, data)] decoded by the REAL handler"""
    from geckolib.utils.simulator import GeckoSimulator
    from geckolib.driver import GeckoUdpSocket, GeckoStructure
    from geckolib.driver.protocol.statusblock import GeckoStatusBlockProtocolHandler
    # ONE simulator, built by its real constructor, serves every transfer of a check run (a real spa / simulator is long-lived
    # and keeps answering while its block changes; requests of different connections repeat sequence numbers)
    global _SIM
    if _SIM is None:
        import builtins
        real_print = builtins.print
        builtins.print = lambda *a, **k: None          # the simulator chats on stdout
        try:
            _SIM = GeckoSimulator()
        finally:
            builtins.print = real_print
        _SIM._reliability = 1.0
    sim = _SIM
    del sim._socket._send_handlers[:]
    sim.structure.set_status_block(spa)
    req = GeckoStatusBlockProtocolHandler()
    req.handle(GeckoStatusBlockProtocolHandler.request(1, start, length, parms=SENDER)._content, SENDER)
    sim._on_status_block(req, SENDER)
    out = []
    from geckolib.driver import GeckoPacketProtocolHandler
    for h, _ in sim._socket._send_handlers:
        # each segment travels FRAMED, as on the wire: the client's packet handler unwraps it, then the STATV decoder reads it
        un = GeckoPacketProtocolHandler()
        un.handle(h.send_bytes, SENDER[:2])
        content = un.packet_content if un.packet_content is not None else b""
        d = GeckoStatusBlockProtocolHandler()
        d.handle(content, SENDER)
        out.append((d.sequence, d.next, d.data, content))
        _FRAMED[content] = h.send_bytes
    return out


def gen_stream(rng, nseg):
    """a fault stream over segment indices 0..nseg-1: tokens 's<i>' / 't'"""
    kind = rng.choice(["inorder", "loss1", "dup1", "swap1", "final-early", "replay-after-timeout", "mix", "mix", "silence", "middle-lost-every-attempt"])
    base = [f"s{i}" for i in range(nseg)]
    if kind == "inorder":
        ev = base
    elif kind == "loss1":
        k = rng.randrange(nseg)
        ev = base[:k] + base[k + 1:] + ["t"] + base
    elif kind == "dup1":
        k = rng.randrange(nseg)
        ev = base[:k + 1] + [base[k]] + base[k + 1:]
    elif kind == "swap1" and nseg >= 2:
        k = rng.randrange(nseg - 1)
        ev = base[:k] + [base[k + 1], base[k]] + base[k + 2:] + ["t"] + base
    elif kind == "final-early":
        k = rng.randrange(nseg)
        ev = base[:k] + [base[-1]] + base
    elif kind == "replay-after-timeout":
        k = rng.randrange(nseg)
        ev = base[:k] + ["t"] + base[k:] + ["t"] + base
    elif kind == "middle-lost-every-attempt" and nseg >= 3:
        # every attempt ends WITHOUT a timeout: a middle segment is lost each time and the final one arrives out of sequence
        k = rng.randrange(1, nseg - 1)
        ev = (base[:k] + base[k + 1:]) * 14
    elif kind == "silence":
        ev = ["t"] * rng.randrange(0, 4)
    else:
        ev = []
        for _ in range(rng.randrange(1, 4)):
            part = [b for b in base if rng.random() > 0.15]
            if rng.random() < 0.4:
                rng.shuffle(part)
            part = [x for b in part for x in ([b, b] if rng.random() < 0.1 else [b])]
            ev += part + (["t"] if rng.random() < 0.7 else [])
    return kind, ev[:400]


PATCH = b"\xee\xdd"


def run_async(spa, cli, start, length, retry, tokens, chain):
    """the REAL GeckoAsyncStructure.get on the virtual loop, fed from the token stream"""
    from geckolib.driver.async_spastruct import GeckoAsyncStructure
    from geckolib.driver.async_udp_protocol import GeckoAsyncUdpProtocol
    from geckolib.driver.protocol.statusblock import GeckoStatusBlockProtocolHandler
    out = {}

    async def body(loop):
        proto = GeckoAsyncUdpProtocol(None, _Desc.destination)
        tr = vloop.FakeTransport(loop, proto)
        proto.connection_made(tr)

        async def noop(*a):
            pass
        st = GeckoAsyncStructure(lambda *a: None, noop)
        st.set_status_block(cli)
        sent_evt = asyncio.Event()
        orig = tr.sendto

        def sendto(data, addr=None):
            orig(data, addr)
            sent_evt.set()
        tr.sendto = sendto
        done = asyncio.Event()

        async def feeder():
            await sent_evt.wait()          # first request is out
            sent_evt.clear()
            i = 0
            while i < len(tokens) and not done.is_set():
                tok = tokens[i]
                i += 1
                if tok == "t":
                    # silence until the attempt that is current NOW gives up (a further request goes out, or the call returns)
                    while proto.queue.qsize() and not done.is_set():
                        await asyncio.sleep(0.05)
                    n = len(tr.sent)
                    while len(tr.sent) == n and not done.is_set():
                        await asyncio.sleep(0.05)
                elif tok[0] == "p":
                    # the partial-update consumer applies a change the spa reported, NOW (between two segments of this transfer)
                    st.replace_status_block_segment(int(tok[1:]), PATCH)
                else:
                    proto.datagram_received(chain[int(tok[1:])][3], SENDER)
                    # let the client drain what is queued before the next arrival is decided
                    while proto.queue.qsize() and not done.is_set():
                        await asyncio.sleep(0.05)
        ft = asyncio.ensure_future(feeder())
        seq = [0]

        def mk():
            seq[0] += 1
            return GeckoStatusBlockProtocolHandler.request(seq[0], start, length, parms=SENDER)
        try:
            ok = await st.get(proto, mk, retry)
        except Exception as e:  # noqa
            ok = f"raised {type(e).__name__}: {e}"
        done.set()
        ft.cancel()
        out["ok"], out["block"], out["sends"] = ok, st.status_block, len(tr.sent)
    vloop.run_virtual(body)
    return out


def run_async_history(steps, blocks, cli):
    """a HISTORY on ONE long-lived GeckoAsyncStructure (as the connection keeps it): fault-free transfers of ranges (the spa
    presenting one of `blocks`), interleaved with the other writers of the client copy - a partial update patching bytes, a
    wholesale set_status_block.  steps: ("get", start, length, k) | ("patch", pos, data) | ("load", k).  Returns per step
    (ok, block after)"""
    from geckolib.driver.async_spastruct import GeckoAsyncStructure
    from geckolib.driver.async_udp_protocol import GeckoAsyncUdpProtocol
    from geckolib.driver.protocol.statusblock import GeckoStatusBlockProtocolHandler
    out = []
    chains = {}
    for st_ in steps:
        if st_[0] == "get":
            chains[st_[1:]] = real_chain(blocks[st_[3]], st_[1], st_[2])

    async def body(loop):
        proto = GeckoAsyncUdpProtocol(None, _Desc.destination)
        tr = vloop.FakeTransport(loop, proto)
        proto.connection_made(tr)

        async def noop(*a):
            pass
        st = GeckoAsyncStructure(lambda *a: None, noop)
        st.set_status_block(cli)
        seq = [0]
        for step in steps:
            if step[0] == "patch":
                st.replace_status_block_segment(step[1], step[2])
                out.append(("patched", st.status_block))
                continue
            if step[0] == "load":
                st.set_status_block(blocks[step[1]])
                out.append(("loaded", st.status_block))
                continue
            _, start, length, k = step
            chain = chains[(start, length, k)]
            n0 = len(tr.sent)

            async def feeder():
                while len(tr.sent) == n0:
                    await asyncio.sleep(0.01)
                for seg in chain:
                    proto.datagram_received(seg[3], SENDER)
                    while proto.queue.qsize():
                        await asyncio.sleep(0.05)
            ft = asyncio.ensure_future(feeder())

            def mk():
                seq[0] += 1
                return GeckoStatusBlockProtocolHandler.request(seq[0] % 190 + 1, start, length, parms=SENDER)
            try:
                ok = await st.get(proto, mk, 2)
            except Exception as e:  # noqa
                ok = f"raised {type(e).__name__}: {e}"
            ft.cancel()
            out.append((ok, st.status_block))
    vloop.run_virtual(body)
    return out


def run_async_pair(spa, cli, ra, rb, late_after=0.3, latency=0.5):
    """TWO transfers requested concurrently on one connection (one structure, one protocol, its one lock) - ranges `ra` then `rb`.
    The first request of A is answered with its chain minus segment 0, and segment 0 arrives LATE (re-ordered behind the final
    segment); every other request is answered completely and in order.  Returns [(ok_a, ok_b), block]."""
    import struct as _st
    from geckolib.driver.async_spastruct import GeckoAsyncStructure
    from geckolib.driver.async_udp_protocol import GeckoAsyncUdpProtocol
    from geckolib.driver.protocol.statusblock import GeckoStatusBlockProtocolHandler
    chains = {ra: real_chain(spa, *ra), rb: real_chain(spa, *rb)}
    out = {}

    async def body(loop):
        proto = GeckoAsyncUdpProtocol(None, _Desc.destination)
        tr = vloop.FakeTransport(loop, proto)
        proto.connection_made(tr)

        async def noop(*a):
            pass
        st = GeckoAsyncStructure(lambda *a: None, noop)
        st.set_status_block(cli)
        seen = [0]
        first_a = [True]

        async def answer(rng_, segs, late):
            await asyncio.sleep(latency)            # the spa answers after a while: a late segment of an EARLIER request can overtake
            for seg in segs:
                proto.datagram_received(seg[3], SENDER)
                while proto.queue.qsize():
                    await asyncio.sleep(0.05)
            if late is not None:
                await asyncio.sleep(late_after)
                proto.datagram_received(late[3], SENDER)

        async def peer():
            while True:
                while len(tr.sent) == seen[0]:
                    await asyncio.sleep(0.01)
                data = tr.sent[seen[0]][1]
                seen[0] += 1
                i = data.find(b"STATU")
                if i < 0:
                    continue
                _seq, start, length = _st.unpack(">BHH", data[i + 5:i + 10])
                ch = chains.get((start, length))
                if ch is None:
                    continue
                if (start, length) == ra and first_a[0] and len(ch) >= 3:
                    first_a[0] = False
                    asyncio.ensure_future(answer(ra, ch[1:], ch[0]))
                else:
                    asyncio.ensure_future(answer((start, length), ch, None))
        pt = asyncio.ensure_future(peer())
        seq = [0]

        def mk(r):
            def f():
                seq[0] += 1
                return GeckoStatusBlockProtocolHandler.request(seq[0] % 190 + 1, r[0], r[1], parms=SENDER)
            return f

        async def one(r):
            try:
                return await st.get(proto, mk(r), 3)
            except Exception as e:  # noqa
                return f"raised {type(e).__name__}: {e}"
        ta = asyncio.ensure_future(one(ra))
        await asyncio.sleep(0.01)
        tb = asyncio.ensure_future(one(rb))
        out["ok"] = (await ta, await tb)
        out["block"] = st.status_block
        pt.cancel()
    vloop.run_virtual(body)
    return out


def gen_async_history(rng):
    """histories aimed at state that outlives a transfer: the same range fetched again after the client copy was written by somebody
    else (a partial update, a wholesale load, a transfer of an overlapping range) while the spa presents the same bytes as before"""
    R = rng.choice([(256, 300), (0, 1024), (100, 117), (256, 39), (0, 78)])
    sub = (R[0] + rng.randrange(0, max(1, R[1] - 40)), rng.choice([2, 39, 40]))
    sub = (sub[0], min(sub[1], R[0] + R[1] - sub[0]))
    pos = R[0] + rng.randrange(R[1] - 1)
    kind = rng.choice(["patch-between", "load-between", "overlap-between", "idle-repeat", "random"])
    if kind == "patch-between":
        steps = [("get",) + R + (0,), ("patch", pos, bytes([rng.randrange(256), rng.randrange(256)])), ("get",) + R + (0,)]
    elif kind == "load-between":
        steps = [("get",) + R + (0,), ("load", 1), ("get",) + R + (0,)]
    elif kind == "overlap-between":
        steps = [("get",) + R + (0,), ("get",) + sub + (1,), ("get",) + R + (0,)]
    elif kind == "idle-repeat":
        steps = [("get",) + R + (0,), ("get",) + R + (0,), ("get",) + R + (1,), ("get",) + R + (1,)]
    else:
        steps = []
        for _ in range(rng.randint(3, 7)):
            c = rng.random()
            if c < 0.55:
                steps.append(("get",) + rng.choice([R, sub]) + (rng.randrange(2),))
            elif c < 0.85:
                steps.append(("patch", R[0] + rng.randrange(R[1] - 1), bytes([rng.randrange(256), rng.randrange(256)])))
            else:
                steps.append(("load", rng.randrange(2)))
    return kind, steps


class Clock:
    t = 0.0


def run_sync(spa, cli, start, length, budget, tokens, chain):
    """the REAL GeckoStructure + request handler on a REAL (unstarted) GeckoUdpSocket, engine phases stepped by hand"""
    from geckolib.driver.spastruct import GeckoStructure
    from geckolib.driver.udp_socket import GeckoUdpSocket
    from geckolib.driver.protocol.statusblock import GeckoStatusBlockProtocolHandler
    clk = Clock()
    clk.t = 0.0
    with vloop.patch_time(lambda: clk.t):
        sock = GeckoUdpSocket()
        st = GeckoStructure(lambda *a: None)
        st.set_status_block(cli)
        req = GeckoStatusBlockProtocolHandler.request(1, start, length, parms=SENDER)
        req._retry_count = budget
        st.retry_request(sock, req, SENDER)
        for tok in tokens:
            if tok == "t":
                clk.t += req._timeout_in_seconds + 0.5
                for h in list(sock._receive_handlers):
                    h.loop(sock)
                sock._cleanup_handlers()
            else:
                clk.t += 0.01
                sock.dispatch_recevied_data(chain[int(tok[1:])][3], SENDER)
                sock._cleanup_handlers()
        return {"ok": st.had_at_least_one_block, "block": st.status_block, "sends": len(sock._send_handlers)}


class BufSock:
    """the OS socket of the threaded client: datagrams that have arrived WAIT in its buffer (several can be there at once - a
    reply is a burst of segments, a duplicate sits right behind its original) until the engine reads them"""

    def __init__(self):
        self.buffer, self.sent = [], []

    def settimeout(self, t):
        pass

    def close(self):
        pass

    def sendto(self, data, dest):
        self.sent.append((data, dest))

    def recvfrom(self, n):
        import socket as pysocket
        if not self.buffer:
            raise pysocket.timeout()
        data, addr = self.buffer.pop(0)
        return data[:n], addr           # a datagram longer than the caller's buffer is TRUNCATED (UDP), the rest is lost


def run_sync_engine(spa, cli, start, length, budget, bursts, chain):
    """the same transfer through the REAL engine loop: the real GeckoUdpSocket on a buffered socket (constructor argument), the
    real packet handler, `_thread_func` run one iteration at a time (C20's rig), a whole BURST of datagrams in the buffer"""
    from geckolib.driver.spastruct import GeckoStructure
    from geckolib.driver.udp_socket import GeckoUdpSocket
    from geckolib.driver import GeckoPacketProtocolHandler
    from geckolib.driver.protocol.statusblock import GeckoStatusBlockProtocolHandler
    from props.c20 import StepEvent
    clk = Clock()
    clk.t = 0.0
    with vloop.patch_time(lambda: clk.t):
        mock = BufSock()
        sock = GeckoUdpSocket(socket=mock)
        sock._exit_event = StepEvent()

        def one_iteration():
            sock._exit_event.stop = False
            sock._thread_func()
        sock._loop_func = lambda: setattr(sock._exit_event, "stop", True)
        sock.add_receive_handler(GeckoPacketProtocolHandler(socket=sock))
        st = GeckoStructure(lambda *a: None)
        st.set_status_block(cli)
        req = GeckoStatusBlockProtocolHandler.request(1, start, length, parms=SENDER)
        req._retry_count = budget
        err = None
        try:
            st.retry_request(sock, req, SENDER)
            for burst in bursts:
                if burst == "t":
                    clk.t += req._timeout_in_seconds + 0.5
                    one_iteration()
                    continue
                mock.buffer.extend((_FRAMED[chain[int(tok[1:])][3]], SENDER[:2]) for tok in burst)
                for _ in range(len(burst) + 2):
                    clk.t += 0.03
                    one_iteration()
                    if not mock.buffer:
                        break
            clk.t += 0.03
            one_iteration()
        except Exception as e:  # noqa
            err = f"raised {type(e).__name__}: {e}"
        sends = len([d for d, _ in mock.sent if b"STATU" in d]) + len([h for h, _ in sock._send_handlers])
        return {"ok": err or st.had_at_least_one_block, "block": st.status_block, "sends": sends}


def bursts_of(rng, toks):
    """cut a token stream into bursts (what is in the socket buffer together); timeouts stay alone"""
    out, cur = [], []
    mode = rng.choice(["all", "pairs", "random"])
    for t in toks:
        if t == "t":
            if cur:
                out.append(cur)
                cur = []
            out.append("t")
            continue
        cur.append(t)
        if mode == "pairs" and len(cur) == 2 or mode == "random" and rng.random() < 0.4:
            out.append(cur)
            cur = []
    if cur:
        out.append(cur)
    return out


def run_sync_history(spa, cli, xfers, chains):
    """a history of transfers on ONE real GeckoStructure (the assembly state lives on it) and one real socket; every
    transfer is driven until its handler is gone (answered, or retries exhausted by trailing timeouts)"""
    from geckolib.driver.spastruct import GeckoStructure
    from geckolib.driver.udp_socket import GeckoUdpSocket
    from geckolib.driver.protocol.statusblock import GeckoStatusBlockProtocolHandler
    clk = Clock()
    clk.t = 0.0
    out = []
    with vloop.patch_time(lambda: clk.t):
        sock = GeckoUdpSocket()
        st = GeckoStructure(lambda *a: None)
        st.set_status_block(cli)
        for n, (start, length, budget, tokens) in enumerate(xfers):
            chain = chains[(start, length)]
            before = st.status_block
            st.had_at_least_one_block = False
            sends0 = len(sock._send_handlers)
            req = GeckoStatusBlockProtocolHandler.request(n + 1, start, length, parms=SENDER)
            req._retry_count = budget
            err = None
            try:
                st.retry_request(sock, req, SENDER)
                for tok in tokens:
                    if tok == "t":
                        clk.t += req._timeout_in_seconds + 0.5
                        for h in list(sock._receive_handlers):
                            h.loop(sock)
                        sock._cleanup_handlers()
                    else:
                        clk.t += 0.01
                        sock.dispatch_recevied_data(chain[int(tok[1:])][3], SENDER)
                        sock._cleanup_handlers()
            except Exception as e:  # noqa
                err = f"raised {type(e).__name__}: {e}"
            out.append({"ok": err or st.had_at_least_one_block, "block": st.status_block, "before": before,
                        "sends": len(sock._send_handlers) - sends0, "live": req in sock._receive_handlers})
    return out


def gen_history(rng, pairs, chains):
    """2-3 transfers; earlier ones often die after an accepted in-order prefix (so stale assembly state is left behind)"""
    xs = []
    for j in range(rng.choice([2, 2, 3])):
        s0, ln = rng.choice(pairs)
        nseg = len(chains[(s0, ln)])
        budget = rng.choice([0, 1, 2])
        base = [f"s{i}" for i in range(nseg)]
        kind = rng.choice(["prefix-then-dead", "prefix-then-dead", "inorder", "faulty"]) if j < 2 else rng.choice(["inorder", "faulty"])
        if kind == "prefix-then-dead" and nseg >= 2:
            k = rng.randrange(1, nseg)
            toks = base[:k]
        elif kind == "faulty":
            toks = gen_stream(rng, nseg)[1]
        else:
            kind, toks = "inorder", base
        toks = list(toks) + ["t"] * (budget + 1 + toks.count("t") + nseg)    # run the handler to its end
        xs.append((s0, ln, budget, toks, kind))
    return xs


def oracle(ctx, cls, res, spa, cli, start, length, bound, inp):
    """the property, read directly on the implementation's result"""
    blk = res["block"]
    if res["ok"] is True:
        bad = [i for i in range(start, start + length) if i >= len(blk) or blk[i] != spa[i]]
        other = [i for i in range(min(len(blk), len(cli))) if blk[i] != cli[i] and blk[i] != spa[i]]
        if bad or other or len(blk) != len(cli):
            ctx.violation(f"install:{cls}", inp, "every requested byte equals the spa's, no byte changed to anything else",
                          {"requested_bytes_wrong": bad[:5], "foreign_changes": other[:5], "len": len(blk)})
    elif res["ok"] is False:
        if blk != cli:
            ctx.violation(f"untouched:{cls}", inp, "failed transfer leaves the client block untouched", "block changed")
    else:
        ctx.violation(f"raised:{cls}", inp, "get returns True/False", str(res["ok"]))
    if res["sends"] > bound:
        ctx.violation(f"sends:{cls}", inp, f"at most {bound} requests", res["sends"])


def run(ctx):
    st = translate.run(["SimChain", "TransferConsts", "ThreadedFacts", "Skeletons"])
    ctx.cov["translator"] = st
    for k, v in st.items():
        if v != "ok":
            ctx.obligation_broken(f"translate:{k}", v)
    ctx.lean_obligations("GeckoModel.Properties.C01")
    rng = ctx.rng
    lines, impl_ans = [], []
    spa = bytearray(rng.randrange(256) for _ in range(1024))
    # the spa's block is arbitrary bytes: plant the framing tags of the transport in it (inside single segments and across them)
    for tag_ in (b"</DATAS>", b"<DATAS>", b"</PACKT>", b"<SRCCN>", b"</DESCN><DATAS>", b"STATV"):
        for _ in range(3):
            k_ = rng.randrange(0, 1024 - len(tag_))
            spa[k_:k_ + len(tag_)] = tag_
    spa = bytes(spa)
    cli = bytes(rng.randrange(256) for _ in range(1024))
    _viol = ctx.violation

    def violation_with_blocks(key, inp, expected, observed):       # a replay must run on the very blocks of this run
        if isinstance(inp, dict) and inp.get("spa") == "seeded":
            inp = dict(inp, spa_hex=spa.hex(), cli_hex=cli.hex())
        return _viol(key, inp, expected, observed)
    ctx.violation = violation_with_blocks
    lines += [f"blk spa {spa.hex()}", f"blk cli {cli.hex()}"]
    impl_ans += ["ok", "ok"]
    # ---- 1. chain arithmetic: generated definitions vs the real simulator (translator cross-check + fault-free search)
    pairs = set()
    for s0 in (0, 1, 38, 39, 40, 256, 985, 1000, 1023):
        for ln in (1, 2, 38, 39, 40, 77, 78, 79, 117, 280, 285, 301, 337, 479, 480, 511, 1024):
            if s0 + ln <= 1024:
                pairs.add((s0, ln))
    n_rand = 150 if ctx.quick else 3000
    while len(pairs) < n_rand:
        s0 = rng.randrange(1024)
        pairs.add((s0, rng.randrange(1, 1024 - s0 + 1)))
    if not ctx.quick:
        for ln in range(1, 1025):      # every length at start 0 and at the shipped window start
            pairs.add((0, ln))
            if 256 + ln <= 1024:
                pairs.add((256, ln))
    chains = {}
    for (s0, ln) in sorted(pairs):
        try:
            ch = real_chain(spa, s0, ln)
        except Exception as e:  # noqa
            ctx.violation(f"simulator-raises:{ln % 39 == 0}", {"start": s0, "len": ln}, "simulator builds the chain", f"{type(e).__name__}: {e}")
            continue
        chains[(s0, ln)] = ch
        lines.append(f"chain {s0} {ln}")
        impl_ans.append(" ".join(f"{i}:{n}:{len(d)}:{checksum(d)}" for i, n, d, _ in ch))
        ctx.count("chain_pairs")
    # ---- 1b. the spa's block changes between two identical requests (same sequence number, start, length - what a reconnecting
    #          client sends): the long-lived simulator must serve its CURRENT bytes, and a fault-free transfer installs them
    for (s0, ln) in rng.sample(sorted(chains), min(len(chains), 25 if ctx.quick else 300)):
        spa2 = bytearray(spa)
        for _ in range(rng.randint(1, 4)):
            k = s0 + rng.randrange(ln)
            spa2[k] ^= rng.randrange(1, 256)
        spa2 = bytes(spa2)
        inp = {"start": s0, "len": ln, "history": "the same request again after the spa's block changed", "spa": "seeded",
               "changed_at": [i for i in range(1024) if spa2[i] != spa[i]]}
        try:
            real_chain(spa, s0, ln)                      # the request, answered from the old block
            ch2 = real_chain(spa2, s0, ln)               # the identical request after the block changed
        except Exception as e:  # noqa
            ctx.violation("simulator-raises:repeat", inp, "simulator builds the chain", f"{type(e).__name__}: {e}")
            continue
        ctx.count("evaluations")
        served = b"".join(d for _, _, d, _ in ch2)
        # (the simulator's slices may run past the requested length; the clients trim - only the requested bytes matter)
        if served[:ln] != spa2[s0:s0 + ln]:
            bad = [s0 + i for i in range(min(len(served), ln)) if served[i] != spa2[s0 + i]]
            ctx.violation("stale-chain:repeat-request-after-block-change", inp, "the simulator serves the spa's current bytes",
                          {"positions_served_with_old_bytes": bad[:8], "served_len": len(served)})
            continue
        ra = run_async(spa2, cli, s0, ln, 2, [f"s{i}" for i in range(len(ch2))], ch2)
        oracle(ctx, "async", ra, spa2, cli, s0, ln, 2, dict(inp, client="async"))
    # ---- 2. fault-free success on the real code for every pair (search for D1-like hangs) + faulty streams
    todo = sorted(chains)
    faulty = rng.sample(todo, min(len(todo), 60 if ctx.quick else 1200))
    nontrivial = set()
    for (s0, ln) in todo:
        ch = chains[(s0, ln)]
        runs = [("inorder", [f"s{i}" for i in range(len(ch))])] if (ctx.quick and (s0, ln) not in faulty and ln % 39) else []
        if not ctx.quick or ln % 39 == 0:
            runs = [("inorder", [f"s{i}" for i in range(len(ch))])]
        if (s0, ln) in faulty:
            runs += [gen_stream(rng, len(ch)) for _ in range(2)]
        for kind, toks in runs:
            retry = rng.choice([1, 2, 3, 10])
            evs = ",".join(toks) if toks else "-"
            inp = {"start": s0, "len": ln, "retry": retry, "stream": evs[:600], "spa": "seeded", "kind": kind}
            ra = run_async(spa, cli, s0, ln, retry, toks, ch)
            rs = run_sync(spa, cli, s0, ln, retry, toks, ch)
            for cls, res, bound in (("async", ra, retry), ("threaded", rs, 1 + retry)):
                lines.append(f"{'async' if cls == 'async' else 'sync'} {s0} {ln} {retry} {evs}")
                okv = 1 if res["ok"] is True else 0
                impl_ans.append(f"ok={okv} sends={res['sends']} chk={checksum(res['block'])} len={len(res['block'])}")
                oracle(ctx, cls, res, spa, cli, s0, ln, bound, dict(inp, client=cls))
                if kind == "inorder" and res["ok"] is not True:
                    ctx.violation(f"faultfree:{cls}:multiple-of-39={ln % 39 == 0}", dict(inp, client=cls),
                                  "fault-free transfer succeeds", f"ok={res['ok']} sends={res['sends']}")
            # the same stream through the real engine loop, the datagrams waiting in the socket buffer in bursts: the outcome
            # must be the one of the datagram-by-datagram run above (and must meet the property read directly)
            if kind != "inorder" or len(ch) == 1 or ln % 39 == 0:
                bs = bursts_of(rng, toks)
                re_ = run_sync_engine(spa, cli, s0, ln, retry, bs, ch)
                einp = dict(inp, client="threaded-engine", bursts=[b if b == "t" else ",".join(b) for b in bs][:80])
                oracle(ctx, "threaded-engine", re_, spa, cli, s0, ln, 1 + retry, einp)
                if (re_["ok"], re_["block"]) != (rs["ok"], rs["block"]):
                    ctx.violation(f"engine-differs:threaded:{'single-segment' if len(ch) == 1 else 'multi-segment'}", einp,
                                  f"the engine loop installs what the datagram-by-datagram run installs (ok={rs['ok']}, checksum {checksum(rs['block'])})",
                                  f"ok={re_['ok']} checksum={checksum(re_['block'])} len={len(re_['block'])}")
                ctx.hist("engine_bursts", "single-segment" if len(ch) == 1 else "multi-segment")
            ctx.count("evaluations")
            ctx.hist("streams", kind)
            ctx.hist("async_outcomes", f"ok={ra['ok']} sends={ra['sends']}")
            if kind != "inorder" and len(ch) >= 2:
                nontrivial.add((kind, len(ch), ra["ok"], ra["sends"]))
    # ---- 2c. duplicates that sit in the socket buffer RIGHT BEHIND their original (every segment doubled, the whole reply one
    #          burst), on every single-segment range and a sample of the others: a finished transfer must not take the duplicate
    singles = [p_ for p_ in todo if len(chains[p_]) == 1]
    others = rng.sample([p_ for p_ in todo if len(chains[p_]) > 1], min(20 if ctx.quick else 400, len([p_ for p_ in todo if len(chains[p_]) > 1])))
    short = [p_ for p_ in todo if 2 <= len(chains[p_]) <= 8 and p_ not in others]
    others += rng.sample(short, min(12 if ctx.quick else 200, len(short)))          # a partial refresh is a chain of a few segments
    for (s0, ln) in singles + others:
        ch = chains[(s0, ln)]
        toks = [t_ for i in range(len(ch)) for t_ in (f"s{i}", f"s{i}")]
        inp = {"start": s0, "len": ln, "retry": 2, "stream": ",".join(toks)[:600], "spa": "seeded", "kind": "every-segment-doubled",
               "client": "threaded-engine", "bursts": [",".join(toks)[:600]]}
        rs = run_sync(spa, cli, s0, ln, 2, toks, ch)
        re_ = run_sync_engine(spa, cli, s0, ln, 2, [toks], ch)
        oracle(ctx, "threaded-engine", re_, spa, cli, s0, ln, 3, inp)
        ra = run_async(spa, cli, s0, ln, 2, toks, ch)            # the awaitable structure on the same doubled reply
        oracle(ctx, "async", ra, spa, cli, s0, ln, 2, dict(inp, client="async"))
        if (re_["ok"], re_["block"]) != (rs["ok"], rs["block"]):
            ctx.violation(f"engine-differs:threaded:{'single-segment' if len(ch) == 1 else 'multi-segment'}", inp,
                          f"the engine loop installs what the datagram-by-datagram run installs (ok={rs['ok']}, checksum {checksum(rs['block'])})",
                          f"ok={re_['ok']} checksum={checksum(re_['block'])} len={len(re_['block'])}")
        ctx.count("evaluations")
        ctx.hist("engine_bursts", "doubled:" + ("single-segment" if len(ch) == 1 else "multi-segment"))
    # ---- 2d. histories on ONE long-lived awaitable structure: transfers interleaved with the other writers of the client copy
    spa_b = bytearray(spa)
    for _ in range(40):
        spa_b[rng.randrange(1024)] ^= rng.randrange(1, 256)
    blocks = [spa, bytes(spa_b)]
    for _ in range(25 if ctx.quick else 400):
        kind, steps = gen_async_history(rng)
        try:
            res = run_async_history(steps, blocks, cli)
        except Exception as e:  # noqa
            ctx.violation("async-history:raised", {"kind": kind, "steps": [list(map(lambda x: x.hex() if isinstance(x, bytes) else x, st_)) for st_ in steps]},
                          "the history runs", f"{type(e).__name__}: {e}")
            continue
        ctx.count("evaluations")
        ctx.hist("async_histories", kind)
        ref = bytes(cli)
        for j, (step, (ok, blk)) in enumerate(zip(steps, res)):
            if step[0] == "patch":
                ref = ref[:step[1]] + step[2] + ref[step[1] + len(step[2]):]
            elif step[0] == "load":
                ref = blocks[step[1]]
            else:
                _, s0_, ln_, k_ = step
                if ok is True:
                    ref = ref[:s0_] + blocks[k_][s0_:s0_ + ln_] + ref[s0_ + ln_:]
                    # (the simulator's last slice may run past the requested length and the client installs what it was sent: bytes
                    #  after the range may ALSO have become the spa's current bytes - never anything else)
                    if len(blk) == len(ref):
                        ref = bytes(b if (b == r or b == blocks[k_][i]) else r for i, (b, r) in enumerate(zip(blk, ref)))
            if blk != ref or (step[0] == "get" and ok is not True):
                bad = [i for i in range(min(len(blk), len(ref))) if blk[i] != ref[i]][:6]
                ctx.violation(f"async-history:{'not-installed' if step[0] == 'get' else 'other-writer'}:{kind}",
                              {"kind": "async-history", "history": kind, "spa": "seeded", "cli_hex": cli.hex(), "blocks_hex": [b.hex() for b in blocks],
                               "steps": [[x.hex() if isinstance(x, bytes) else x for x in st_] for st_ in steps[:j + 1]]},
                              "after a fault-free transfer every requested byte equals the spa's and no other byte changed (whatever happened to the client copy before)",
                              {"step": j, "result": str(ok)[:60], "first_differing_positions": bad, "len": len(blk)})
                break
    # ---- 2e. two transfers requested concurrently on one connection, the first one's opening segment re-ordered behind its final one:
    #          the second caller must not be handed a segment of the first caller's chain
    for ra, rb in [((0, 117), (200, 100)), ((300, 120), (700, 80)), ((256, 301), (0, 117))] + ([((0, 200), (512, 300))] if not ctx.quick else []):
        try:
            res = run_async_pair(spa, cli, ra, rb)
        except Exception as e:  # noqa
            ctx.violation("async-pair:raised", {"kind": "async-pair", "first": list(ra), "second": list(rb), "spa": "seeded"}, "the pair runs", f"{type(e).__name__}: {e}")
            continue
        ctx.count("evaluations")
        ctx.hist("async_pairs", f"{res['ok']}")
        blk = res["block"]
        for who, r_, ok in (("first", ra, res["ok"][0]), ("second", rb, res["ok"][1])):
            if ok is True and blk[r_[0]:r_[0] + r_[1]] != spa[r_[0]:r_[0] + r_[1]]:
                bad = [i for i in range(r_[0], r_[0] + r_[1]) if blk[i] != spa[i]][:6]
                ctx.violation(f"async-pair:install:{who}", {"kind": "async-pair", "first": list(ra), "second": list(rb), "spa": "seeded", "cli_hex": cli.hex()},
                              "a transfer that reports success has installed the spa's bytes in its range (concurrent callers on one connection)",
                              {"caller": who, "range": list(r_), "first_differing_positions": bad})
            elif ok not in (True, False):
                ctx.violation(f"async-pair:raised:{who}", {"kind": "async-pair", "first": list(ra), "second": list(rb), "spa": "seeded"}, "get returns True/False", str(ok)[:100])
        other = [i for i in range(1024) if blk[i] != cli[i] and blk[i] != spa[i]][:6]
        if other:
            ctx.violation("async-pair:foreign-bytes", {"kind": "async-pair", "first": list(ra), "second": list(rb), "spa": "seeded", "cli_hex": cli.hex()},
                          "no byte changes to anything but the spa's value", other)
    # ---- 3. histories of transfers on one threaded structure (the assembly state lives on the structure)
    multi = [p for p in todo if len(chains[p]) >= 2]
    for _ in range(40 if ctx.quick else 600):
        if not multi:
            break
        xs = gen_history(rng, multi, chains)
        res = run_sync_history(spa, cli, [x[:4] for x in xs], chains)
        lines.append("synch " + ";".join(f"{s0}:{ln}:{b}:{','.join(t) if t else '-'}" for s0, ln, b, t, _ in xs))
        impl_ans.append(" | ".join(f"ok={1 if r['ok'] is True else 0} sends={r['sends']} chk={checksum(r['block'])} len={len(r['block'])}" for r in res))
        for j, ((s0, ln, b, t, kind), r) in enumerate(zip(xs, res)):
            inp = {"history": [{"start": a, "len": l, "budget": bb, "stream": ",".join(tt)} for a, l, bb, tt, _ in xs[:j + 1]],
                   "transfer": j, "client": "threaded-history", "spa": "seeded"}
            if r["live"]:
                ctx.count("history_transfer_not_finished")
                break
            oracle(ctx, f"threaded-history:{'first' if j == 0 else 'later'}", r, spa, r["before"], s0, ln, 1 + b, inp)
            if kind == "inorder" and r["ok"] is not True:
                ctx.violation(f"faultfree:threaded-history:{'first' if j == 0 else 'later'}", inp, "fault-free transfer succeeds",
                              f"ok={r['ok']} sends={r['sends']}")
            ctx.hist("history_transfers", f"{'first' if j == 0 else 'later'}:{kind}:ok={r['ok'] is True}")
        ctx.count("histories")
    try:
        model = Driver("Driver/C01.lean").run(lines)
    except DriverFailure as e:
        ctx.obligation_broken("driver:C01", e)
        model = None
    if model is not None:
        nd = 0
        for i, (mo, im) in enumerate(zip(model, impl_ans)):
            if mo != im:
                nd += 1
                if nd <= 3:
                    ctx.obligation_broken("correspondence:transfer-model-vs-implementation", {"op": lines[i][:300], "model": mo[:300], "impl": im[:300]})
        ctx.cov["correspondence_ops"] = len(lines)
        ctx.cov["correspondence_disagreements"] = nd
    for i in range(len(lines)):
        if lines[i].startswith(("async", "sync ")) and "t" in lines[i].split(" ")[-1]:
            ctx.sample({"op": lines[i][:160], "impl": impl_ans[i]})
    check_connected_refreshes(ctx)
    try:
        check_update_during_transfer(ctx, spa, cli, chains)
    except Exception as e:  # noqa
        ctx.obligation_broken("harness:update-during-transfer", f"{type(e).__name__}: {e}")
    ctx.cov["distinct_nontrivial"] = len(nontrivial)
    ctx.cov["rule"] = ("(start,len) = boundaries, multiples of 39 +-1, shipped refresh windows, seeded random (thorough: every length at starts 0 and 256); for each the "
                       "real simulator's chain is compared with the generated arithmetic; in-order streams for the fault-free clause (all multiples of 39 always; all pairs in "
                       "thorough); seeded fault streams (single loss, duplicate, adjacent swap, final segment early, replay after timeout, random mixtures, silence) on both "
                       "real assemblers. non-trivial = faulty stream over a chain of >= 2 segments; distinct by (fault kind, chain length, outcome, sends)")
    ctx.assumptions += ["segments are genuine (the real simulator's bytes for this request); delivery order/loss/duplication is adversarial",
                        "the threaded engine is stepped deterministically (dispatch, handler.loop, cleanup) with a patched clock; no thread is started"]


def check_update_during_transfer(ctx, spa, cli, chains, only=None):
    """the client's copy has another writer: a change the spa reports (a partial update) is applied BETWEEN two segments of a transfer, at
    bytes outside the requested range. The transfer succeeds, the requested bytes are the spa's, and the reported change is still there"""
    todo = [p_ for p_ in sorted(chains) if 3 <= len(chains[p_]) <= 8][:: max(1, len([p_ for p_ in chains if 3 <= len(chains[p_]) <= 8]) // 6)][:6]
    for (s0, ln) in todo:
        ch = chains[(s0, ln)]
        pos = s0 - 7 if s0 >= 9 else s0 + ln + 45        # (clear of the final segment, which may carry the spa's bytes past the requested end)
        if not (0 <= pos and pos + 2 <= len(cli)) or (s0 - 2 < pos < s0 + ln):
            continue
        for after in range(0, len(ch) - 1):
            if only is not None and only != [s0, ln, after]:
                continue
            toks = [f"s{i}" for i in range(after + 1)] + [f"p{pos}"] + [f"s{i}" for i in range(after + 1, len(ch))]
            try:
                r = run_async(spa, cli, s0, ln, 2, toks, ch)
            except Exception as e:  # noqa
                r = {"ok": f"raised {type(e).__name__}: {e}", "block": b"", "sends": 0}
            ctx.count("evaluations")
            ctx.hist("update_during_transfer", f"{len(ch)} segments")
            blk = r["block"]
            want = bytearray(cli)
            want[pos:pos + 2] = PATCH
            want[s0:s0 + ln] = spa[s0:s0 + ln]
            diff = [i for i in range(min(len(blk), len(want))) if blk[i] != want[i] and not (not (s0 <= i < s0 + ln) and blk[i] == spa[i])][:6]
            if r["ok"] is not True or len(blk) != len(want) or diff:
                ctx.violation("install:async:update-during-transfer", {"kind": "update-during-transfer", "case": [s0, ln, after], "spa_hex": spa.hex(), "cli_hex": cli.hex()},
                              f"the transfer succeeds; bytes {s0}..{s0 + ln - 1} are the spa's, bytes {pos}..{pos + 1} hold the change reported meanwhile ({PATCH.hex()}), everything else is untouched",
                              {"ok": r["ok"], "differs_at": diff, "client holds at the reported change": bytes(blk[pos:pos + 2]).hex() if len(blk) >= pos + 2 else None})
                return


def check_connected_refreshes(ctx, only=None):
    """transfers as the CONNECTED blocking client issues them: both of its threads stepped (the ping thread calls `refresh()` - a fetch of
    the log range - once per ping period) against the real simulator, under the library's idle and active timings, with the answer to
    one refresh lost whole / without its first / its last segment. Later refreshes succeed: the client's copy is the spa's again"""
    import bsessions
    from common import REPO
    snap = str(REPO / "tests" / "snapshots" / "inYT-Pump1Hi-2020-12-13 11_19_35.snapshot")
    for active in (True, False):
        for lose in ("chain", "last", "first"):
            if only is not None and only != [active, lose]:
                continue
            try:
                r = bsessions.refreshes_under_loss(snap, active, lose)
            except Exception as e:  # noqa
                r = {"raised": f"{type(e).__name__}: {e}"}
            ctx.count("evaluations")
            ctx.hist("connected_refreshes", f"{'active' if active else 'idle'}:{lose}")
            if not r.get("connected") or r.get("error") or r.get("differs_at") or r.get("block_len") != r.get("spa_block_len"):
                ctx.violation(f"connected-refreshes:{lose}", {"kind": "connected-refreshes", "case": [active, lose]},
                              "after the loss the next refreshes succeed: the client's copy is the spa's block, byte for byte and no longer", r)
                return


def replay(inp):
    import random
    from common import Ctx
    ctx = Ctx("C01", "quick", 0)
    if inp.get("kind") == "update-during-transfer":
        s0, ln, after = inp["case"]
        chains_ = {(s0, ln): real_chain(spa, s0, ln)}
        check_update_during_transfer(ctx, spa, cli, chains_, only=[s0, ln, after])
        return bool(ctx.violations), ctx.violations[0]["observed"] if ctx.violations else "the reported change is still there"
    if inp.get("kind") == "connected-refreshes":
        check_connected_refreshes(ctx, only=inp["case"])
        return bool(ctx.violations), ctx.violations[0]["observed"] if ctx.violations else "the client's copy is the spa's"
    rng = random.Random(0)
    spa = bytes(rng.randrange(256) for _ in range(1024))
    cli = bytes(rng.randrange(256) for _ in range(1024))
    if inp.get("spa_hex"):
        spa, cli = bytes.fromhex(inp["spa_hex"]), bytes.fromhex(inp["cli_hex"])
    if inp.get("kind") == "async-pair":
        res = run_async_pair(spa, cli, tuple(inp["first"]), tuple(inp["second"]))
        blk = res["block"]
        bad = [w for w, r_, ok in (("first", inp["first"], res["ok"][0]), ("second", inp["second"], res["ok"][1]))
               if ok is True and blk[r_[0]:r_[0] + r_[1]] != spa[r_[0]:r_[0] + r_[1]]]
        return bool(bad), {"results": [str(x) for x in res["ok"]], "callers_with_wrong_bytes": bad}
    if inp.get("kind") == "async-history":
        blocks = [bytes.fromhex(b) for b in inp["blocks_hex"]]
        cli = bytes.fromhex(inp["cli_hex"])
        steps = [tuple(bytes.fromhex(x) if isinstance(x, str) and i == 2 and st_[0] == "patch" else x for i, x in enumerate(st_)) for st_ in inp["steps"]]
        res = run_async_history(steps, blocks, cli)
        ok, blk = res[-1]
        last = steps[-1]
        if last[0] == "get":
            bad = ok is not True or blk[last[1]:last[1] + last[2]] != blocks[last[3]][last[1]:last[1] + last[2]]
            return bad, {"result": str(ok)[:60], "requested_bytes_equal_the_spas": not bad}
        return False, "last step is not a transfer"
    if inp.get("client") == "threaded-engine":
        ch = real_chain(spa, inp["start"], inp["len"])
        bs = [b if b == "t" else b.split(",") for b in inp["bursts"]]
        res = run_sync_engine(spa, cli, inp["start"], inp["len"], inp["retry"], bs, ch)
        oracle(ctx, "threaded-engine", res, spa, cli, inp["start"], inp["len"], 1 + inp["retry"], inp)
        return bool(ctx.violations), ctx.violations[0]["observed"] if ctx.violations else f"ok={res['ok']} sends={res['sends']}"
    if inp.get("client") == "threaded-history":
        hs = inp["history"]
        chains = {(h["start"], h["len"]): real_chain(spa, h["start"], h["len"]) for h in hs}
        res = run_sync_history(spa, cli, [(h["start"], h["len"], h["budget"], h["stream"].split(",") if h["stream"] else []) for h in hs], chains)
        j = inp["transfer"]
        r = res[j]
        oracle(ctx, "threaded-history", r, spa, r["before"], hs[j]["start"], hs[j]["len"], 1 + hs[j]["budget"], inp)
        return bool(ctx.violations), ctx.violations[0]["observed"] if ctx.violations else f"ok={r['ok']} sends={r['sends']}"
    if inp.get("changed_at") is not None:
        real_chain(spa, inp["start"], inp["len"])
        spa2 = bytearray(spa)
        for k in inp["changed_at"]:
            spa2[k] ^= 0x5A
        spa2 = bytes(spa2)
        ch2 = real_chain(spa2, inp["start"], inp["len"])
        served = b"".join(d for _, _, d, _ in ch2)
        bad = served[:inp["len"]] != spa2[inp["start"]:inp["start"] + inp["len"]]
        return bad, "the repeated request is served with the old bytes" if bad else "served with the current bytes"
    ch = real_chain(spa, inp["start"], inp["len"])
    toks = [] if inp["stream"] == "-" else inp["stream"].split(",")
    if inp.get("client") == "threaded":
        res = run_sync(spa, cli, inp["start"], inp["len"], inp["retry"], toks, ch)
        bound = 1 + inp["retry"]
    else:
        res = run_async(spa, cli, inp["start"], inp["len"], inp["retry"], toks, ch)
        bound = inp["retry"]
    oracle(ctx, inp.get("client", "async"), res, spa, cli, inp["start"], inp["len"], bound, inp)
    if inp.get("kind") == "inorder" and res["ok"] is not True:
        return True, f"ok={res['ok']} sends={res['sends']}"
    return bool(ctx.violations), ctx.violations[0]["observed"] if ctx.violations else f"ok={res['ok']} sends={res['sends']}"
