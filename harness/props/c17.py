"""C17 - active/idle configuration switching is complete and wakes every sleeper."""
import asyncio
import itertools
import json

import translate
import qloop
from common import Driver, DriverFailure, digest

LEVEL = "proof"
MANIFEST = dict(
    text='Machine-checked Lean 4 proof over a hand model of config.py (tables regenerated from the source on every run): '
         'set_config_mode installs every member of the chosen table whatever the live object held before (no mixture; the three '
         'classes and the live object have exactly the CONFIG_MEMBERS attributes); the facade selects active iff some pump or blower '
         'is on; and, for ALL sequences of config_sleep / set_config_mode / tick / task-cancel steps with any number of concurrent '
         'sleepers (induction with an invariant: every waiting sleeper waits on the current, unresolved future), a switch wakes every '
         'sleeper in that step, nobody sleeps past its deadline, a timeout fires exactly at the deadline, nobody is lost; the '
         'AssertionError branch (switch before any sleep) is its own theorem. Tie: differential correspondence of the REAL '
         'config_sleep/set_config_mode on a virtual-time event loop (scripted concurrent sleepers, loops re-sleeping on live config '
         'values, cancels, switches, ready-callback order shuffled) against the model driver - every GeckoConfig member after each '
         'switch, the wake time of every sleeper, the state of the shared future - plus the facade rule on real GeckoPump / '
         'GeckoBlower / GeckoAsyncFacade objects; direct monitors on the real code with timer jitter on.'
         ' Since session 3: the facade rule is exercised on facades built by the real constructor, observing the live table (with the opposite table installed beforehand), and over histories of real facades (reconnect with a pump running, external mode switch, ticks). config_change_state_inventory: the facade keeps no remembered mode. Device changes arrive as misaligned 2-byte words and refresh segments. Session 5: device_change_reaches_the_facade_whatever_happened_before (the notification walk keeps no memory); real-facade histories in which a client callback watching a pump or blower fails once - everything afterwards must still switch the table. A run on the virtual loop in which nothing is runnable and no timer is pending is reported as a verdict (Deadlock), not a hung check. sleepers_share_the_current_future: over the regenerated skeleton of config_sleep the shared future is replaced only when absent or resolved, and the wait on it is the last thing the coroutine does. Round 14: script op `manager` (another task manager entered and left while sleepers sleep). Round 16: every member of the live table in turn, and all at once, set to a foreign value before each switch - afterwards every setting is the chosen table\'s.',
    note='Partial: the timing clauses are theorems about the tick model (time = integer milliseconds of the virtual clock); real '
         'timer skew of an event loop is outside, the jittered runs only bound it. Assumed: asyncio.wait(timeout=) semantics, one '
         'event loop (the module-level future is foreign to a second loop), cancellation delivered at the next suspension point. '
         'Trusted: Lean kernel; axioms propext/Classical.choice/Quot.sound only; harness/gen_c17.py (tables by import, cross-checked '
         'by ast; statement shape of both functions checked syntactically); the virtual loop and canonicaliser. The facade rule is '
         'checked on real device and facade classes driven by stub state sensors, not on facades built from pack tables.',
    technique='Lean 4 invariant induction over op sequences + decide over generated tables + differential correspondence on a virtual-time loop',
    design='5/C17',
)

MS_PER_S = 1000


# ----------------------------------------------------------------------------------------------- running a script on the real code
def _members(cfg):
    out = {}
    for a in dir(cfg.GeckoConfig):
        if a.startswith("__"):
            continue
        try:
            v = getattr(cfg.GeckoConfig, a)
        except Exception as e:  # noqa
            v = f"raised {type(e).__name__}"
        if callable(v):
            continue
        out[a] = v
    return out


def run_script(script):
    """Execute a script on the REAL config.py. Returns {"events": [...], "future": none|pending|done, "end_ms": n} or {"error": ...}.

    ops: [t_ms, "sleep", id, delay_ms] | [t_ms, "loop", base_id, n, member] | [t_ms, "mode", 0|1] | [t_ms, "cancel", id] | [t_ms, "yield"] |
         [t_ms, "manager"] (another task manager is entered and left: what a second spa manager in the process does at start-up)
    """
    sched = script.get("sched", {})

    async def body(loop):
        import geckolib.config as cfg
        ev, tasks, cur = [], {}, {}

        async def one_sleep(key, sid, delay_ms):
            ev.append(["sleep", loop.ms(), sid, delay_ms])
            cur[key] = sid
            try:
                await cfg.config_sleep(delay_ms / MS_PER_S)
                ev.append(["wake", loop.ms(), sid])
            except asyncio.CancelledError:
                ev.append(["cancelled", loop.ms(), sid])
                cur[key] = None
                raise
            except Exception as e:  # noqa
                ev.append(["raised", loop.ms(), sid, f"{type(e).__name__}: {e}"])
            cur[key] = None

        async def looper(key, base, n, member):
            for i in range(n):
                try:
                    d = int(getattr(cfg.GeckoConfig, member) * MS_PER_S)
                except Exception:  # noqa
                    d = 1000
                await one_sleep(key, base + i, d)

        for op in script["ops"]:
            dt = op[0] - loop.ms()
            if dt > 0:
                await asyncio.sleep(dt / MS_PER_S)
            kind = op[1]
            if kind == "sleep":
                tasks[op[2]] = loop.create_task(one_sleep(op[2], op[2], op[3]))
            elif kind == "loop":
                tasks[op[2]] = loop.create_task(looper(op[2], op[2], op[3], op[4]))
            elif kind == "yield":
                await asyncio.sleep(0)
            elif kind == "manager":
                # the start-up / shut-down glue of ANOTHER task manager (a second spa manager in the same process): entered and left at
                # once - its own housekeeping task is cancelled before it first sleeps, so no sleeper of its own takes part
                from geckolib.async_tasks import AsyncTasks
                try:
                    async with AsyncTasks():
                        pass
                except Exception as e:  # noqa
                    ev.append(["raised", loop.ms(), -1, f"manager: {type(e).__name__}: {e}"])
            elif kind == "mode":
                try:
                    cfg.set_config_mode(bool(op[2]))
                    outcome = "ok"
                except AssertionError:
                    outcome = "E_ASSERT"
                except Exception as e:  # noqa
                    outcome = f"raised {type(e).__name__}: {e}"
                ev.append(["mode", loop.ms(), op[2], outcome, _members(cfg)])
            elif kind == "cancel":
                t = tasks.get(op[2])
                if t is not None and not t.done() and cur.get(op[2]) is not None:
                    ev.append(["cancel", loop.ms(), cur[op[2]]])
                    t.cancel()
        dt = script["horizon"] - loop.ms()
        if dt > 0:
            await asyncio.sleep(dt / MS_PER_S)
        for _ in range(3):
            await asyncio.sleep(0)
        fut = cfg.ConfigChange
        state = "none" if fut is None else ("done" if fut.done() else "pending")
        return {"events": [list(e) for e in ev], "future": state, "end_ms": loop.ms()}

    try:
        with qloop.watchdog(10):
            return qloop.run_q(body, seed=sched.get("seed", 0), shuffle=sched.get("shuffle", False), jitter_ms=sched.get("jitter_ms", 0))
    except (Exception, qloop.Hang) as e:  # noqa
        return {"error": f"{type(e).__name__}: {e}"}


# ----------------------------------------------------------------------------------------------- direct monitors (no model)
def _table_of(active):
    """what the chosen class itself says, member by member (independent of CONFIG_MEMBERS)"""
    import geckolib.config as cfg
    cls = cfg._GeckoActiveConfig if active else cfg._GeckoIdleConfig
    inst = cls()
    return {a: getattr(inst, a) for a in dir(inst) if not a.startswith("__") and not callable(getattr(inst, a))}


def check_switch_from_any_table(ctx, only=None):
    """'complete': after a switch EVERY setting is the chosen mode's, whatever the live table held before - each member in turn (and all
    at once) is set to a foreign value first (a client tuning a time-out, a test, an earlier partial switch), then the mode is selected"""
    import geckolib.config as cfg

    async def body(loop):
        out = []
        saved = dict(_members(cfg))
        try:
            await cfg.config_sleep(0)                 # the shared wake-up future exists (what any sleeper does first)
            names = sorted(a for a in _table_of(True) if a.isupper())
            for active in (True, False):
                want = _table_of(active)
                for victim in names + ["*"]:
                    if only is not None and only != [active, victim]:
                        continue
                    for a in names:
                        if victim in (a, "*"):
                            setattr(cfg.GeckoConfig, a, 987.5)
                    try:
                        cfg.set_config_mode(active)
                        got = _members(cfg)
                        bad = {a: [got.get(a), want[a]] for a in names if got.get(a) != want[a]}
                    except Exception as e:  # noqa
                        bad = {"raised": f"{type(e).__name__}: {e}"}
                    out.append((active, victim, bad))
                    await cfg.config_sleep(0)
        finally:
            for a, v in saved.items():
                try:
                    setattr(cfg.GeckoConfig, a, v)
                except Exception:  # noqa
                    pass
        return out
    res = qloop.run_q(body)
    for active, victim, bad in res:
        ctx.count("evaluations")
        ctx.hist("switch_from_any_table", "active" if active else "idle")
        if bad:
            ctx.violation("switch-incomplete:from-a-changed-table", {"kind": "switch-from-any-table", "case": [active, victim]},
                          f"after set_config_mode({active}) every setting holds the value of the {'active' if active else 'idle'} table",
                          {"setting: [live value, table value]": bad, "changed beforehand": victim})
            return


def monitor(script, res):
    """property checked directly on the real run. Returns list of (key, expected, observed)."""
    out = []
    if "error" in res:
        return [("run-failed", "the script runs", res["error"])]
    ev = res["events"]
    J = script.get("sched", {}).get("jitter_ms", 0)
    slept_before = False
    for i, e in enumerate(ev):
        if e[0] == "sleep":
            slept_before = True
        if e[0] == "mode":
            want = "ok" if slept_before else "E_ASSERT"
            if e[3] != want:
                out.append((f"switch-outcome:{want}", want, e[3]))
            try:
                tbl = _table_of(bool(e[2]))
            except Exception as ex:  # noqa
                out.append(("table-unreadable", "chosen class instantiable", f"{type(ex).__name__}: {ex}"))
                continue
            for m, v in tbl.items():
                if e[4].get(m, "<missing>") != v:
                    out.append((f"mixture:{'active' if e[2] else 'idle'}:{m}", {m: v}, {m: e[4].get(m, "<missing>")}))
    # sleepers
    end = {}
    for e in ev:
        if e[0] in ("wake", "cancelled", "raised"):
            end[e[2]] = e
    for i, e in enumerate(ev):
        if e[0] != "sleep":
            continue
        sid, start, delay = e[2], e[1], e[3]
        bound, why = start + delay + J, "timeout"
        for f in ev[i + 1:]:
            if (f[0] == "mode" and f[3] == "ok") or (f[0] == "cancel" and f[2] == sid):
                if f[1] < bound:
                    bound, why = f[1], ("switch" if f[0] == "mode" else "cancel")
                break
        fin = end.get(sid)
        if fin is not None and fin[0] == "raised":
            out.append(("sleeper-raised", "config_sleep returns", fin[3]))
            continue
        if fin is not None and fin[0] == "cancelled" and not any(f[0] == "cancel" and f[2] == sid for f in ev):
            out.append(("sleeper-cancelled-by-nobody", "config_sleep returns normally", f"CancelledError at {fin[1]} ms"))
            continue
        woke = fin[1] if fin is not None else None
        if fin is not None and fin[0] == "wake" and woke < start + delay:
            j = ev.index(fin)
            if not any(f[0] == "mode" and f[3] == "ok" for f in ev[i + 1:j]):
                out.append(("undersleep:no-switch", f"sleeper {sid} (start {start} ms, delay {delay} ms) sleeps until {start + delay} ms: no switch happened",
                            f"config_sleep returned at {woke} ms"))
                continue
        if bound <= res["end_ms"] and (woke is None or woke > bound):
            kind = {"switch": "missed-switch", "cancel": "late-cancel", "timeout": "late-timeout"}[why]
            out.append((f"oversleep:{kind}", f"sleeper {sid} (start {start} ms, delay {delay} ms) awake by {bound} ms ({why})",
                        f"awake at {woke} ms" if woke is not None else f"still asleep at {res['end_ms']} ms"))
    return out


def shrink(script, key):
    """drop ops while the same monitor key still fires"""
    cur = script
    changed, budget = True, 120
    while changed and budget > 0:
        changed = False
        for i in range(len(cur["ops"])):
            budget -= 1
            cand = dict(cur, ops=cur["ops"][:i] + cur["ops"][i + 1:])
            if any(k == key for k, _, _ in monitor(cand, run_script(cand))):
                cur, changed = cand, True
                break
            if budget <= 0:
                break
    return cur


# ----------------------------------------------------------------------------------------------- script generation
DELAYS = [0, 1, 37, 50, 99, 100, 101, 200, 250, 300, 500, 1000, 2000, 4000, 5000, 10000, 30000, 60000, 120000]
MEMBERS = ["TASK_TIDY_FREQUENCY_IN_SECONDS", "PING_FREQUENCY_IN_SECONDS", "FACADE_UPDATE_FREQUENCY_IN_SECONDS",
           "SPA_PACK_REFRESH_FREQUENCY_IN_SECONDS", "PAUSE_BETWEEN_RETRIES_IN_SECONDS"]


def _finish(ops, rng, sched):
    last = max([o[0] for o in ops] + [0])
    longest = max([o[3] for o in ops if o[1] == "sleep"] + [0])
    horizon = last + min(longest, 3000) + 200
    return {"ops": ops, "horizon": horizon, "sched": sched}


def gen_random(rng, sched, n=None):
    ops, t, nid, deadlines, live = [], 0, 1, [], []
    n = n or rng.randint(3, 24)
    if rng.random() < 0.8:
        ops.append([0, "sleep", 0, rng.choice(DELAYS)])   # usually somebody sleeps first (as the task tidier does)
        deadlines.append(ops[-1][3])
        live.append(0)
    for _ in range(n):
        r = rng.random()
        if r < 0.35:
            pass                                    # same instant
        elif r < 0.6 and deadlines:
            t = max(t, rng.choice(deadlines) + rng.choice([-100, -1, 0, 0, 1, 100]))
        else:
            t += rng.choice([1, 50, 100, 100, 200, 300, 1000])
        k = rng.random()
        if k < 0.45:
            d = rng.choice(DELAYS)
            if deadlines and rng.random() < 0.4:    # aim at somebody else's deadline +-1 tick
                d = max(0, rng.choice(deadlines) + rng.choice([-100, -1, 0, 1, 100]) - t)
            ops.append([t, "sleep", nid, d])
            deadlines.append(t + d)
            live.append(nid)
            nid += 1
        elif k < 0.75:
            ops.append([t, "mode", rng.randint(0, 1)])
        elif k < 0.84:
            ops.append([t, "yield"])
        elif k < 0.87:
            ops.append([t, "manager"])
        elif k < 0.95 and live:
            ops.append([t, "cancel", rng.choice(live)])
        else:
            ops.append([t, "loop", nid * 100, rng.randint(2, 4), rng.choice(MEMBERS)])
            live.append(nid * 100)
            nid += 1
    return _finish(ops, rng, sched)


def gen_burst(rng, sched):
    k = rng.randint(4, 30)
    ops = [[0, "sleep", i, rng.choice(DELAYS[1:])] for i in range(k)]
    t = rng.choice([0, 1, 50, 100, 500])
    if rng.random() < 0.5:
        ops.append([t, "yield"])
    ops.append([t, "mode", 1])
    ops += [[t, "sleep", k + i, rng.choice(DELAYS)] for i in range(rng.randint(0, 5))]
    if rng.random() < 0.5:
        ops.append([t + rng.choice([0, 100]), "mode", 0])
    return _finish(ops, rng, sched)


RACES = [
    [[0, "sleep", 1, 500], [0, "mode", 1]],
    [[0, "sleep", 1, 500], [0, "yield"], [0, "mode", 1]],
    [[0, "mode", 1], [0, "sleep", 1, 500]],
    [[0, "sleep", 1, 500], [0, "yield"], [0, "mode", 1], [0, "mode", 0]],
    [[0, "sleep", 1, 500], [0, "yield"], [0, "mode", 1], [0, "sleep", 2, 500], [0, "yield"], [0, "mode", 0]],
    [[0, "sleep", 1, 500], [0, "yield"], [0, "mode", 1], [0, "yield"], [0, "sleep", 2, 500], [100, "mode", 0]],
    [[0, "sleep", 1, 0], [0, "mode", 1], [0, "sleep", 2, 0], [0, "yield"], [0, "mode", 0]],
    [[0, "sleep", 1, 300], [0, "sleep", 2, 300], [300, "mode", 1], [300, "sleep", 3, 100]],
    [[0, "sleep", 1, 300], [299, "mode", 1], [300, "mode", 0], [301, "mode", 1]],
    [[0, "mode", 1], [0, "mode", 0], [10, "sleep", 1, 100], [20, "mode", 1]],
    [[0, "sleep", 1, 1000], [0, "yield"], [100, "cancel", 1], [100, "mode", 1], [100, "sleep", 2, 100]],
    [[0, "sleep", 1, 1000], [0, "sleep", 2, 1000], [0, "yield"], [100, "cancel", 1], [200, "mode", 1]],
    [[0, "loop", 100, 4, "TASK_TIDY_FREQUENCY_IN_SECONDS"], [0, "loop", 200, 4, "PING_FREQUENCY_IN_SECONDS"], [0, "loop", 300, 3, "FACADE_UPDATE_FREQUENCY_IN_SECONDS"],
     [500, "mode", 1], [3000, "mode", 0], [3100, "mode", 1], [9000, "mode", 0]],
    # sleepers of one manager, then a SECOND manager starts up in the same process, then a switch: everybody is woken
    [[0, "sleep", 1, 60000], [0, "sleep", 2, 45000], [0, "yield"], [100, "manager"], [200, "sleep", 3, 60000], [300, "mode", 1], [400, "sleep", 4, 500]],
    [[0, "sleep", 1, 60000], [0, "yield"], [100, "mode", 1], [150, "sleep", 2, 60000], [200, "manager"], [250, "manager"], [300, "mode", 0]],
]


def scripts(ctx, sched_of):
    n_rand, n_burst = (220, 40) if ctx.quick else (4000, 600)
    out = []
    for i, ops in enumerate(RACES):
        for s in range(2 if ctx.quick else 8):
            out.append(("race", _finish([list(o) for o in ops], ctx.rng, sched_of(s))))
    for _ in range(n_rand):
        out.append(("random", gen_random(ctx.rng, sched_of(ctx.rng.randrange(1 << 30)))))
    for _ in range(n_burst):
        out.append(("burst", gen_burst(ctx.rng, sched_of(ctx.rng.randrange(1 << 30)))))
    return out


# ----------------------------------------------------------------------------------------------- correspondence
def model_lines(res):
    """op lines for the Lean driver from the REAL order of events (time unit: 1 ms) + the expected answers of the mode lines"""
    lines, expect, cur = ["reset"], ["ok"], 0

    def adv(ms):
        nonlocal cur
        if ms > cur:
            lines.append(f"tick {ms - cur}")
            expect.append("ok")
            cur = ms
    for e in res["events"]:
        if e[0] == "sleep":
            adv(e[1]); lines.append(f"sleep {e[2]} {e[3]}"); expect.append("ok")
        elif e[0] == "mode":
            adv(e[1]); lines.append(f"mode {e[2]}")
            expect.append(e[3] + " " + ";".join(f"{k}={v}" for k, v in e[4].items()))
        elif e[0] == "cancel":
            adv(e[1]); lines.append(f"cancel {e[2]}"); expect.append("ok")
    adv(res["end_ms"])
    lines.append("dump")
    woken = {e[2]: e[1] for e in res["events"] if e[0] in ("wake", "cancelled")}
    slept = [e[2] for e in res["events"] if e[0] == "sleep"]
    expect.append({"future": res["future"], "woken": woken, "waiting": sorted(i for i in slept if i not in woken)})
    return lines, expect


def parse_dump(line):
    f = dict(x.split("=", 1) for x in line.split(" "))
    woken = {}
    if f["woken"] != "-":
        for w in f["woken"].split(","):
            i, _s, at, _c = w.split(":")
            woken[int(i)] = int(at)
    waiting = sorted(int(w.split(":")[0]) for w in f["waiting"].split(",")) if f["waiting"] != "-" else []
    fut = "none" if f["gen"] == "0" else ("done" if f["done"] == "1" else "pending")
    causes = [w.split(":")[3] for w in f["woken"].split(",")] if f["woken"] != "-" else []
    return {"future": fut, "woken": woken, "waiting": waiting}, causes


def correspondence(ctx, runs):
    lines, expect, owner = [], [], []
    for idx, (fam, script, res) in enumerate(runs):
        if "error" in res:
            ctx.obligation_broken("correspondence:script-run-failed", {"script": script, "error": res["error"]})
            return
        l, e = model_lines(res)
        lines += l
        expect += e
        owner += [idx] * len(l)
    try:
        model = Driver("Driver/C17.lean").run(lines)
    except DriverFailure as e:
        ctx.obligation_broken("driver:C17", e)
        return
    ctx.cov["correspondence_op_lines"] = len(lines)
    nontrivial = set()
    for i, (m, e) in enumerate(zip(model, expect)):
        fam, script, res = runs[owner[i]]
        if isinstance(e, dict):
            try:
                got, causes = parse_dump(m)
            except Exception:  # noqa
                got, causes = m, []
            if got != e:
                ctx.obligation_broken("correspondence:sleeper-wake-times", {"script": script, "model": got, "impl": e, "events": res["events"][:40]})
                return
            for c in causes:
                ctx.hist("model_wake_causes", c)
            if "switch" in causes and len(e["woken"]) >= 2:
                nontrivial.add(digest(res["events"]))
        elif m != e:
            ctx.obligation_broken("correspondence:members-after-switch" if lines[i].startswith("mode") else "correspondence:op",
                                  {"script": script, "op": lines[i], "model": m, "impl": e})
            return
        elif lines[i].startswith("mode"):
            ctx.hist("switch_outcomes", m.split(" ")[0])
    ctx.cov["distinct_nontrivial"] = len(nontrivial)
    return True


# ----------------------------------------------------------------------------------------------- the facade rule on real objects
class _Stub:
    def __init__(self, **kw):
        self.__dict__.update(kw)


def _real_device(kind, tok):
    """a real GeckoPump / GeckoBlower whose state sensor is a stub: tok = f0|f1 (BOOL accessor) or l<LABEL> (ENUM)"""
    from geckolib.automation.pump import GeckoPump
    from geckolib.automation.blower import GeckoBlower
    if tok[0] == "f":
        acc, state = _Stub(type="Bool"), tok == "f1"
    else:
        acc, state = _Stub(type="Enum"), tok[1:]
    sensor = _Stub(accessor=acc, state=state)
    dev = object.__new__(GeckoPump if kind == "p" else GeckoBlower)
    dev._state_sensor = sensor
    dev._accessor = acc
    return dev


def facade_mode(pumps, blowers):
    """run the REAL GeckoAsyncFacade._on_config_device_change (on a facade built by the real constructor, whose pump and blower
    lists are replaced by real device objects with stub state sensors) once with the live table ACTIVE beforehand and once
    with it IDLE, and observe the table afterwards: '1' active, '0' idle, else what happened"""
    async def body(loop):
        import geckolib.config as cfg
        from geckolib import GeckoAsyncFacade
        from geckolib.utils.snapshot import GeckoSnapshot
        from props import c11
        from common import REPO
        await cfg.config_sleep(0)
        snap = GeckoSnapshot.parse_log_file(str(REPO / "tests" / "snapshots" / "default.snapshot"))[0]
        plat = snap.packtype.lower()
        act, idle = cfg._GeckoActiveConfig(), cfg._GeckoIdleConfig()
        res = []
        for prior in (True, False):
            spa = c11.StubSpa(f"{plat}-cfg-{snap.config_version}", f"{plat}-log-{snap.log_version}", bytes(snap.bytes), "a")
            fac = GeckoAsyncFacade(spa, c11.Taskman())
            fac._pumps = [_real_device("p", t) for t in pumps]
            fac._blowers = [_real_device("b", t) for t in blowers]
            cfg.set_config_mode(prior)
            fac._on_config_device_change()
            a = all(getattr(cfg.GeckoConfig, m) == getattr(act, m) for m in cfg.CONFIG_MEMBERS)
            i = all(getattr(cfg.GeckoConfig, m) == getattr(idle, m) for m in cfg.CONFIG_MEMBERS)
            res.append("1" if a else "0" if i else "mixed")
        if res[0] != res[1]:
            return f"depends on the table before: active before -> {res[0]}, idle before -> {res[1]}"
        return res[0]
    try:
        qloop.reset_config()
        return qloop.run_q(body)
    except Exception as e:  # noqa
        return f"raised {type(e).__name__}: {e}"


def _is_on(tok):
    return tok == "f1" if tok[0] == "f" else tok[1:] != "OFF"


def facade_cases(ctx):
    toks = ["f0", "f1", "lOFF", "lHI", "lLO", "loff", "lON"]
    cases = [([], []), (["f0"], []), ([], ["f1"])]
    for n in range(1, 4 if ctx.quick else 5):       # all on/off combinations of up to n pumps and blowers (flags), then labels
        for combo in itertools.product(["f0", "f1"], repeat=n):
            for split in range(n + 1):
                cases.append((list(combo[:split]), list(combo[split:])))
    for _ in range(60 if ctx.quick else 600):
        cases.append(([ctx.rng.choice(toks) for _ in range(ctx.rng.randint(0, 6))], [ctx.rng.choice(toks) for _ in range(ctx.rng.randint(0, 3))]))
    return cases


def check_facade(ctx):
    cases = facade_cases(ctx)
    lines = ["facade %s %s" % (",".join(p) or "-", ",".join(b) or "-") for p, b in cases]
    impl = [facade_mode(p, b) for p, b in cases]
    ctx.count("evaluations", len(cases))
    ctx.cov["facade_cases"] = len(cases)
    for (p, b), got in zip(cases, impl):     # direct oracle
        want = "1" if any(_is_on(t) for t in p + b) else "0"
        if got != want:
            ctx.violation("facade:%s:%s" % (",".join(p) or "-", ",".join(b) or "-"), {"kind": "facade", "pumps": p, "blowers": b},
                          "active" if want == "1" else "idle", got)
    try:
        model = Driver("Driver/C17.lean").run(lines)
    except DriverFailure as e:
        ctx.obligation_broken("driver:C17", e)
        return
    for l, m, r in zip(lines, model, impl):
        if m != r:
            ctx.obligation_broken("correspondence:facade-rule", {"op": l, "model": m, "impl": r})
            return
    ctx.sample({"facade": lines[5:8], "answers": impl[5:8]})


# ----------------------------------------------------------------------------------------------- histories over REAL facades
class _ClientFault(Exception):
    pass


def _real_history(ops, snapshot="default.snapshot"):
    """Real GeckoAsyncFacade objects, built by their real constructor on one real structure holding a shipped snapshot's
    block, driven through a history (the process-wide GeckoConfig is shared by all of them, as in a real process):
      ["new"]           the connection is replaced: old facade.disconnect(), a new facade on the same structure
      ["set", i, on]    device i (pumps then blowers) starts/stops: its state bits change through
                        replace_status_block_segment -> accessor -> sensor -> device -> facade notification chain
      ["ext", b]        somebody else switches the mode (another spa's facade, user code)
      ["fault", i]      a CLIENT callback watching device i (as an automation integration does) fails once, on the next change it is
                        told about; the failure is reported to whoever delivered the block, and everything afterwards must still work
      ["tick"]          what the facade update loop does every period: facade._on_config_device_change()
    Returns one record per op: [op, devices_on, table ('active'|'idle'|'mixed:<member>'), must_match]."""
    import importlib
    from props import c11
    from common import REPO

    async def body(loop):
        import geckolib.config as cfg
        from geckolib import GeckoAsyncFacade
        from geckolib.utils.snapshot import GeckoSnapshot
        await cfg.config_sleep(0)
        snap = GeckoSnapshot.parse_log_file(str(REPO / "tests" / "snapshots" / snapshot))[0]
        plat = snap.packtype.lower()
        spa = c11.StubSpa(f"{plat}-cfg-{snap.config_version}", f"{plat}-log-{snap.log_version}", bytes(snap.bytes), "a")
        act, idle = cfg._GeckoActiveConfig(), cfg._GeckoIdleConfig()

        def table():
            a = [m for m in cfg.CONFIG_MEMBERS if getattr(cfg.GeckoConfig, m) != getattr(act, m)]
            i = [m for m in cfg.CONFIG_MEMBERS if getattr(cfg.GeckoConfig, m) != getattr(idle, m)]
            return "active" if not a else ("idle" if not i else f"mixed:{a[0]}")

        fac = GeckoAsyncFacade(spa, c11.Taskman())
        out = []

        def devs():
            return list(fac.all_config_change_devices)

        def on_count():
            return sum(1 for d in devs() if d.is_on)
        for op in ops:
            must = False
            if op[0] == "new":
                await fac.disconnect()
                fac = GeckoAsyncFacade(spa, c11.Taskman())
            elif op[0] == "set":
                ds = devs()
                if ds:
                    d = ds[op[1] % len(ds)]
                    acc = d._state_sensor.accessor
                    before = d.is_on
                    if acc.type == "Bool":
                        idx = 1 if op[2] else 0
                    else:
                        labels = list(acc.items)
                        offs = [k for k, l in enumerate(labels) if l == "OFF"]
                        ons = [k for k, l in enumerate(labels) if l != "OFF"]
                        idx = (ons[op[1] % len(ons)] if ons else 0) if op[2] else (offs[0] if offs else 0)
                    blk = spa.struct.status_block
                    w = int.from_bytes(blk[acc.pos:acc.pos + acc.length], "big")
                    if acc.bitpos is not None:
                        w = (w & ~(acc.bitmask << acc.bitpos)) | (idx << acc.bitpos)
                    else:
                        w = idx
                    # how the spa's change reaches the client: a patch of exactly the item's bytes (a set-value echo), a 2-byte partial
                    # update word that STARTS one byte before the item or at it, or a refresh of a whole region around it
                    how = op[3] if len(op) > 3 else "own"
                    nb = bytearray(blk)
                    nb[acc.pos:acc.pos + acc.length] = w.to_bytes(acc.length, "big")
                    if how == "word-before" and acc.pos >= 1:
                        lo, hi = acc.pos - 1, min(1024, acc.pos - 1 + max(2, acc.length + 1))
                    elif how == "word-at":
                        lo, hi = acc.pos, min(1024, acc.pos + max(2, acc.length))
                    elif how == "refresh":
                        lo, hi = max(0, acc.pos - 37), min(1024, acc.pos + 64)
                    else:
                        lo, hi = acc.pos, acc.pos + acc.length
                    try:
                        spa.struct.replace_status_block_segment(lo, bytes(nb[lo:hi]))
                        must = d.is_on != before            # the device's state changed: the facade has been notified
                    except _ClientFault:
                        must = False                        # the delivery that a client callback broke is reported to the deliverer, not judged
            elif op[0] == "fault":
                ds = devs()
                if ds:
                    d = ds[op[1] % len(ds)]
                    armed = [True]

                    def failing(sender, old, new, armed=armed):
                        if armed[0]:
                            armed[0] = False
                            raise _ClientFault("client callback failed (once)")
                    d.watch(failing)
            elif op[0] == "ext":
                cfg.set_config_mode(bool(op[1]))
            elif op[0] == "tick":
                fac._on_config_device_change()
                must = True
            out.append([list(op), on_count(), table(), must])
        await fac.disconnect()
        return out
    qloop.reset_config()
    return qloop.run_q(body)


def facade_histories(ctx):
    rng = ctx.rng
    hs = [
        [["set", 0, True], ["new"], ["set", 0, False], ["tick"]],                        # reconnect with a pump running, then it stops
        [["set", 0, True], ["set", 0, False], ["new"], ["tick"], ["set", 1, True], ["set", 1, False]],
        [["tick"], ["ext", True], ["tick"], ["set", 0, True], ["ext", False], ["tick"]],  # somebody else switches the mode
        [["set", 0, True], ["new"], ["tick"], ["set", 0, False], ["new"], ["tick"]],
    ]
    hs += [[["set", i, True, how], ["set", i, False, how]] for how in ("word-before", "word-at", "refresh") for i in range(4)]
    hs += [[["fault", i], ["set", i, True], ["set", i, False], ["tick"], ["set", i, True], ["set", i, False]] for i in range(3)]
    hs += [[["set", 0, True], ["fault", 0], ["set", 0, False], ["set", 0, True], ["set", 0, False], ["set", 1, True], ["set", 1, False]]]
    for _ in range(12 if ctx.quick else 150):
        h = []
        for _ in range(rng.randint(3, 14)):
            r = rng.random()
            h.append(["set", rng.randrange(4), rng.random() < 0.5, rng.choice(["own", "word-before", "word-at", "refresh"])] if r < 0.5 else ["tick"] if r < 0.7 else ["new"] if r < 0.82 else ["fault", rng.randrange(4)] if r < 0.88 else ["ext", rng.random() < 0.5])
        hs.append(h)
    return hs


def check_facade_real(ctx):
    """direct oracle (no model): after every op that makes the facade evaluate its rule, the live table is the ACTIVE one iff some
    pump or blower is on, never a mixture"""
    snaps = ["default.snapshot", "inYT-Pump1Hi-2020-12-13 11_19_35.snapshot", "inXM-Pump 1, 2 and blower running-2020-12-08 19_54_44.snapshot"] if ctx.quick else None
    import glob
    import os
    from common import REPO
    if snaps is None:
        snaps = sorted(os.path.basename(p) for p in glob.glob(str(REPO / "tests" / "snapshots" / "*.snapshot")))
    snaps = [s_ for s_ in snaps if os.path.exists(str(REPO / "tests" / "snapshots" / s_))]
    n, nontriv = 0, set()
    for sn in snaps:
        for h in facade_histories(ctx):
            try:
                recs = _real_history(h, sn)
            except Exception as e:  # noqa
                if "more than one" in str(e) or isinstance(e, IndexError):
                    break       # a session log with several snapshots / no snapshot: not a facade input (C19 reports those)
                ctx.violation(f"facade-history:raised:{type(e).__name__}", {"kind": "facade-history", "snapshot": sn, "ops": h},
                              "the history runs", f"{type(e).__name__}: {e}")
                break
            n += 1
            ctx.count("evaluations")
            for k, (op, on, tab, must) in enumerate(recs):
                if tab.startswith("mixed") or (must and tab != ("active" if on else "idle")):
                    ctx.violation(f"facade-history:{'mixture' if tab.startswith('mixed') else 'wrong-table'}:after-{op[0]}",
                                  {"kind": "facade-history", "snapshot": sn, "ops": h[:k + 1]},
                                  f"{'active' if on else 'idle'} table ({on} pump(s)/blower(s) on)", tab)
                    break
                if must:
                    nontriv.add((op[0], on > 0, tab))
            else:
                continue
            break
    ctx.cov["real_facade_histories"] = n
    ctx.cov["real_facade_history_outcomes"] = sorted(map(str, nontriv))


# ----------------------------------------------------------------------------------------------- run / replay
def run(ctx):
    st = translate.run(["ConfigTables", "Skeletons"])
    ctx.cov["translator"] = st
    if st["ConfigTables"] != "ok":
        ctx.obligation_broken("translate:ConfigTables", st["ConfigTables"])
    ctx.lean_obligations("GeckoModel.Properties.C17")
    try:
        import geckolib.config, geckolib.automation.async_facade, geckolib.automation.pump, geckolib.automation.blower  # noqa
    except BaseException as e:  # noqa   (a tree that does not even import)
        ctx.violation("import-failed", {"kind": "import"}, "geckolib imports", f"{type(e).__name__}: {e}")
        ctx.cov["rule"] = "the library under test could not be imported"
        return

    # exact runs: ready-callback order shuffled, timers exact
    exact = []
    for fam, script in scripts(ctx, lambda s: {"seed": s, "shuffle": True, "jitter_ms": 0}):
        exact.append((fam, script, run_script(script)))
    # jittered runs: monitors only
    jit = []
    for fam, script in scripts(ctx, lambda s: {"seed": s, "shuffle": True, "jitter_ms": 30})[:: (2 if ctx.quick else 1)]:
        jit.append((fam, script, run_script(script)))
    seen = set()
    for fam, script, res in exact + jit:
        ctx.count("evaluations")
        ctx.hist("script_families", fam + ("+jitter" if script["sched"]["jitter_ms"] else ""))
        for key, want, got in monitor(script, res):
            if key in seen:
                continue
            seen.add(key)
            small = script if key in ("run-failed", "no-return") else shrink(script, key)
            r2 = run_script(small)
            w2 = [(k, w, g) for k, w, g in monitor(small, r2) if k == key]
            ctx.violation(key, {"kind": "script", "script": small}, w2[0][1] if w2 else want, w2[0][2] if w2 else got)
    ctx.cov["sleeps_run"] = sum(1 for _, _, r in exact + jit for e in r.get("events", []) if e[0] == "sleep")
    ctx.cov["switches_run"] = sum(1 for _, _, r in exact + jit for e in r.get("events", []) if e[0] == "mode")
    if st["ConfigTables"] == "ok":
        correspondence(ctx, exact)
    check_facade(ctx)
    check_facade_real(ctx)
    check_switch_from_any_table(ctx)
    if exact:
        fam, script, res = exact[len(RACES)]
        ctx.sample({"script": script["ops"][:10], "events": [e[:4] for e in res.get("events", [])[:12]]})
    ctx.cov.setdefault("distinct_nontrivial", 0)
    ctx.cov["rule"] = ("a case is one script (timed config_sleep / looping sleepers on live config values / set_config_mode / cancel / yield "
                       "ops) executed on the real config.py on the virtual loop with one seeded schedule, or one pumps/blowers on-off "
                       "assignment for the facade rule; distinct non-trivial = distinct real event logs of exact-timer runs in which a "
                       "switch woke at least one sleeper before its deadline and at least two sleepers ended")
    ctx.assumptions += ["asyncio.wait(timeout=) semantics; a single event loop; task cancellation delivered at the next suspension point",
                        "timing clauses are about the tick model (integer ms of the virtual clock); real timer skew is outside (jittered runs bound it by the jitter)",
                        "facade rule exercised on real GeckoPump/GeckoBlower/GeckoAsyncFacade classes with stub state sensors"]


def replay(inp):
    if inp.get("kind") == "switch-from-any-table":
        from common import Ctx
        c = Ctx("C17", "quick", 0)
        check_switch_from_any_table(c, only=inp["case"])
        return bool(c.violations), c.violations[0]["observed"] if c.violations else "complete"
    if inp.get("kind") == "import":
        try:
            import geckolib.config, geckolib.automation.async_facade  # noqa
            return False, "imports"
        except BaseException as e:  # noqa
            return True, f"{type(e).__name__}: {e}"
    if inp.get("kind") == "facade":
        got = facade_mode(inp["pumps"], inp["blowers"])
        want = "1" if any(_is_on(t) for t in inp["pumps"] + inp["blowers"]) else "0"
        return got != want, got
    if inp.get("kind") == "facade-history":
        try:
            recs = _real_history(inp["ops"], inp["snapshot"])
        except Exception as e:  # noqa
            return True, f"{type(e).__name__}: {e}"
        op, on, tab, must = recs[-1]
        return tab.startswith("mixed") or (must and tab != ("active" if on else "idle")), {"devices_on": on, "table": tab}
    script = inp["script"]
    res = run_script(script)
    v = monitor(script, res)
    return bool(v), [{"key": k, "expected": w, "observed": g} for k, w, g in v] or "property holds on this script"
