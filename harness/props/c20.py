"""C20 - threaded engine: FIFO paced sends, first-match dispatch, bounded handler life, handshake under loss.

The REAL GeckoUdpSocket / GeckoSpa / GeckoSimulator are stepped deterministically: no thread is started; one call of the real
`_thread_func` runs exactly one iteration (the rig's `_loop_func` hook ends the `while self.isopen` loop), on a mock socket
(sendto / recvfrom / settimeout) and an EXACT virtual clock (fractions.Fraction seconds, whole microseconds) that only advances
between iterations and inside recvfrom.
"""
import importlib
import random
import socket as pysocket
import struct
import threading
import time as realtime
from fractions import Fraction

import translate
import vloop
from common import Driver, DriverFailure, REPO
from props.c03 import checksum
from props.c16 import _Desc

LEVEL = "proof"
MANIFEST = dict(
    text="Lean 4 theorems about `engineIter`, a statement-by-statement model of one `_thread_func` iteration (throttled pop(0) send, recvfrom + first-match "
         "dispatch with handle/handled inside the swallowing try and nested <PACKT> re-dispatch, handler.loop = timeout -> retry / on_retry_failed inside its "
         "per-handler try, _cleanup_handlers, guarded _loop_func; queue_send recording the destination; phase order, throttle gap, pop index, timeout "
         "strictness, the two guards and the destination recording are re-extracted from the source on every run and the model is parameterised by them), "
         "for ALL programs of handlers, all registration orders, all environment sequences (clock advances in microseconds, at most one datagram per "
         "iteration) interleaved with client calls, by induction over runs: fifo_sends (initial queue ++ queue_send calls = datagrams popped ++ final queue; "
         "transmitted = popped when nothing fails), paced (consecutive transmissions >= 20001 us >= 1/50 s apart), first_match (the minimal accepting index, "
         "nobody if none), exception_isolated (a raising handle/on_handled leaves queue, handler list, every timer untouched) and engine_survives / "
         "run_survives WITHOUT hypotheses: no handler exception (handle, on_handled, on_retry_failed, _loop_func) ever stops the engine; retry_exact (an "
         "unanswered request queued for dst with timeout T and N retries: never more than N re-queues, all to dst; while registered re-queues + remaining "
         "retries = N and clock <= s0 + (N+1)(T+D); once gone exactly N re-queues and clock > s0 + (N+1)T; retry_last_timeout: removed in the very iteration "
         "that detects the (N+1)-th timeout; D = bound on the clock advance of one iteration) and retry_exact_on_the_wire (a FRESH request, queued once by the "
         "client: exactly 1 + N datagrams transmitted, all to dst, none failed - also when the first timeout precedes the first transmission); "
         "answered_removed (reply handled -> gone at this iteration's clean-up, no re-queue then or later) and answered_no_further_transmission_partial "
         "(nothing of it is ever transmitted again PROVIDED no transmission of it was pending in the queue when the reply was handled - the code does not "
         "purge the queue: recorded finding answered:retransmission-after-answer, witness in Lean and on the real engine); handshake_completes (version -> "
         "channel -> config -> block at event level, any events before each reply with <= budget timeouts, block stage = C01's threaded assembler surviving "
         "its prefix then one clean chain: connected and block = the spa's bytes). Tie: translator facts + differential correspondence of the model driver "
         "with the real engine stepped through its own `_thread_func` on boundary-aimed scripts, and of the handshake model with a real GeckoSpa against the "
         "real GeckoSimulator (both engines stepped, shipped snapshot) under seeded loss. Search: monitors on the stepped real engine (send order, gaps, "
         "dispatch target, handler list, retransmission counts, engine liveness, handshake outcome)."
         ' Since session 3: per-attempt-timeout monitor (consecutive retransmissions of one request at least T apart) and a backlog corpus script; the simulator is built by its real constructor. Session 4: over the regenerated skeletons of all seven socket methods that touch the handler lists or the counters, every mutation happens under self._lock (shared_state_mutated_under_the_lock), hence by the lock holder for any number of threads and any pre-emptive interleaving that respects the lock (shared_state_mutually_exclusive, via lock_mutex). A real-thread search stops the clean-up step before each of its source lines while a second thread registers a request (registration must survive). every_answer_restarts_the_clock (every normal end of handled / async_handled calls _reset_timeout). foreign_code_never_stops_the_engine (+ send_step_contains_handler_exceptions): the four steps of the engine contain whatever a handler\'s code (its send_bytes property, can_handle / handle / handled, loop), the OS socket or the sub-class hook raises (Thrown / exception_is_contained over the regenerated skeletons; reads of send_bytes are skeleton events). Round 15: the blocking hand-shake with BOTH threads stepped (one _ping_thread_func iteration per ping period) under idle and active timings with one datagram lost; first match with three handlers overlapping only partly on one verb, all registration orders and datagram sequences up to four. Round 16: refresh_only_when_connected, final_connect_needs_an_open_socket_and_a_block, every_blocking_set_value_is_sent over the regenerated skeletons of the blocking session glue.',
    note="PARTIAL: real threads are outside the step model - client threads calling queue_send/add_receive_handler are serialised between iterations (the code "
         "uses self._lock for the lists; the new last_destination assignment in queue_send is outside the lock), and `_thread_func` iterates "
         "self._receive_handlers WITHOUT the lock while client threads may append (a data race the step model cannot exhibit; named, not claimed). "
         "Thorough-tier real-thread runs are tests, labelled as such. Trusted: Lean kernel, translator, the stepping harness (mock socket, exact Fraction "
         "clock: IEEE rounding of clock subtraction is outside the model; on the exact clock a gap of exactly 20000 us is throttled because the double 1.0/50 "
         "exceeds 1/50). can_handle is assumed total (a raising can_handle is caught by _process_received_data and the datagram dropped); sendto is assumed "
         "not to raise. The handshake theorem is at event level (reply dispatched / request timed out), tied to the engine model by the per-handler theorems "
         "and to the code by correspondence only. 'No further transmission once answered' holds only when nothing of the handler is pending in the queue "
         "(known finding).",
    technique="Lean 4 induction over runs of a statement-level engine model parameterised by source-extracted facts + deterministic stepping of the real engine through its own _thread_func",
    design="5/C20")

US = 10 ** 6
CLIENT_ADDR = ("10.0.0.9", 5555)


# ------------------------------------------------------------------------------------------------ clock, socket, event fakes
class FClock:
    def __init__(self, us=0):
        self.us = us

    def now(self):
        return Fraction(self.us, US)


_CUR = [FClock(0)]          # the clock geckolib reads (patched once around run())


def _now():
    return _CUR[0].now()


def to_us(x):
    f = Fraction(x) * US
    return int(f) if f.denominator == 1 else float(f)


class MockSock:
    def __init__(self, clk, addr=None):
        self.clk, self.addr = clk, addr
        self.pending = None        # (bytes, remote) returned by the next recvfrom
        self.dt_recv = 0
        self.sent = []             # (us, bytes, dest)
        self.on_recv = None
        self.on_send = None

    def settimeout(self, t):
        pass

    def close(self):
        pass

    def sendto(self, data, dest):
        self.sent.append((self.clk.us, data, dest))
        if self.on_send:
            self.on_send(data, dest)

    def recvfrom(self, n):
        if self.on_recv:
            self.on_recv()
        self.clk.us += self.dt_recv
        if self.pending is None:
            raise pysocket.timeout()
        d, self.pending = self.pending, None
        return d


class StepEvent:
    """stand-in for threading.Event: `stop` is raised by the rig's _loop_func hook so `while self.isopen` runs one iteration"""

    def __init__(self):
        self.stop = False

    def is_set(self):
        return self.stop

    def set(self):
        self.stop = True

    def wait(self, timeout=None):
        return self.stop


class FakeThread:
    def __init__(self, *a, **k):
        pass

    def start(self):
        pass

    def join(self, *a):
        pass


class FakeThreading:
    """what geckolib.driver.udp_socket / geckolib.spa see as `threading` while a rig opens a socket: no thread is ever started"""
    Lock = staticmethod(threading.Lock)
    Event = StepEvent
    Thread = FakeThread


class RecList(list):
    """_send_handlers with an observable pop"""

    def __init__(self, rig):
        super().__init__()
        self.rig = rig

    def pop(self, *a):
        x = super().pop(*a)
        self.rig.on_pop(x)
        return x


class ScriptedError(Exception):
    pass


def dest_tuple(d):
    if d is None:
        return None
    base = ("10.1.%d.%d" % (d // 256, d % 256), 10022)
    return base + (b"SPA", b"IOS") if d % 2 else base          # odd: the 4-tuple form that _process_send_requests trims


def dest_id(t):
    if t is None:
        return "n"
    p = t[0].split(".")
    return str(int(p[2]) * 256 + int(p[3]))


def enc_dgram(s):
    """'pp3' -> bytes"""
    if s.startswith("p"):
        return b"<P>" + enc_dgram(s[1:]) + b"</P>"
    return b"V" + s.encode()


def dec_dgram(b):
    if b.startswith(b"<P>") and b.endswith(b"</P>"):
        return "p" + dec_dgram(b[3:-4])
    return b[1:].decode()


_CLASSES = {}


def classes():
    """rig subclasses of the real classes (created after geckolib is importable)"""
    if _CLASSES:
        return _CLASSES
    from geckolib.driver.udp_socket import GeckoUdpSocket
    from geckolib.driver.udp_protocol_handler import GeckoUdpProtocolHandler
    from geckolib.spa import GeckoSpa

    class Monitored:
        """mixin: observation of queue_send / add_receive_handler / dispatch on the real methods"""

        def queue_send(self, protocol_handler, destination):
            self.rig.on_queue_send(protocol_handler, destination)
            return super().queue_send(protocol_handler, destination)

        def add_receive_handler(self, protocol_handler):
            self.rig.on_add(protocol_handler)
            return super().add_receive_handler(protocol_handler)

        def dispatch_recevied_data(self, received_bytes, remote_end):
            rig = self.rig
            snap = list(self._receive_handlers)
            expected = None
            try:
                for h in snap:
                    if h.can_handle(received_bytes, remote_end):
                        expected = h
                        break
            except Exception:
                expected = "can_handle-raised"
            calls, saved = [], []
            for h in {id(x): x for x in snap}.values():
                prev = h.__dict__.get("handle")
                inner = h.handle

                def rec(b, s, _h=h, _inner=inner):
                    calls.append(_h)
                    return _inner(b, s)
                saved.append((h, prev))
                h.__dict__["handle"] = rec
            before = rig.snapshot_state() if rig.wants_isolation_check else None
            rig.pure_raise = False
            rig.dg_stack.append(received_bytes)
            try:
                return super().dispatch_recevied_data(received_bytes, remote_end)
            finally:
                rig.dg_stack.pop()
                for h, prev in saved:
                    if prev is None:
                        h.__dict__.pop("handle", None)
                    else:
                        h.__dict__["handle"] = prev
                rig.on_dispatched(received_bytes, snap, expected, calls[0] if calls else None, before)

    class RigSocket(Monitored, GeckoUdpSocket):
        def __init__(self, rig, sock):
            self.rig = rig
            super().__init__(sock)

        def _loop_func(self):
            self._exit_event.stop = True
            if self.rig.loop_raises:
                raise ScriptedError("_loop_func")

    class RigSpa(Monitored, GeckoSpa):
        def __init__(self, rig, desc):
            self.rig = rig
            super().__init__(desc)

        def _loop_func(self):
            try:
                super()._loop_func()
            finally:
                self._exit_event.stop = True

    class ScriptedHandler(GeckoUdpProtocolHandler):
        def __init__(self, rig, row):
            self.rig, self.row, self.hid = rig, row, row["id"]
            self.construct()

        def construct(self):
            r = self.row
            kw = dict(timeout=Fraction(r["timeout"], US) if r["timeout"] else 0, retry_count=r["retries"], on_handled=ScriptedHandler._on_handled_cb)
            if r["onfail"] == "r":
                kw["on_retry_failed"] = ScriptedHandler._fail_default
            elif r["onfail"] == "x":
                kw["on_retry_failed"] = ScriptedHandler._fail_raise
            if r["sendable"]:
                kw["send_bytes"] = b"H%d" % self.hid
            GeckoUdpProtocolHandler.__init__(self, **kw)
            self.stats = dict(timeouts=0, retry_enq=0, answered=False, foreign=False, client_enq=0, first_sent=False, regs=0)

        @staticmethod
        def _fail_default(handler, socket):
            handler.rig.events.append(f"rf({handler.hid})")
            GeckoUdpProtocolHandler._default_retry_failed_handler(handler, socket)

        @staticmethod
        def _fail_raise(handler, socket):
            handler.rig.events.append(f"rf({handler.hid})")
            raise ScriptedError("on_retry_failed")

        def can_handle(self, received_bytes, sender):
            if received_bytes.startswith(b"<P>"):
                return bool(self.row["pk"])
            return bool((self.row["mask"] >> int(received_bytes[1:])) & 1)

        def _react(self, table, b):
            key = "p" if b.startswith(b"<P>") else b[1:].decode()
            for k, acts, raises in table:
                if k == key:
                    return acts, raises
            for k, acts, raises in table:
                if k == "*":
                    return acts, raises
            return [], False

        def _run(self, acts, raises, b, sender):
            rig, sock = self.rig, self.rig.sock
            try:
                for a in acts:
                    if a == "R":
                        self._should_remove_handler = True
                    elif a[0] == "S":
                        h, d = a[1:].split(":")
                        rig.origin = "act"
                        rig.inst[int(h)].stats["foreign"] = True
                        sock.queue_send(rig.inst[int(h)], dest_tuple(None if d == "n" else int(d)))
                    elif a[0] == "C":
                        rig.inst[int(a[1:])].construct()
                        rig.inst[int(a[1:])].stats["foreign"] = True
                    elif a[0] == "A":
                        rig.inst[int(a[1:])].stats["foreign"] = True
                        sock.add_receive_handler(rig.inst[int(a[1:])])
                    elif a == "U":
                        if not b.startswith(b"<P>"):
                            raise ScriptedError("not a packet")
                        sock.dispatch_recevied_data(b[3:-4], sender)
                    elif a == "T":
                        rig.origin = "retry"
                        self.stats["foreign"] = True
                        if not self.retry(sock):
                            raise ScriptedError("too many retries")
                if raises:
                    raise ScriptedError("scripted")
            except Exception:
                rig.events.append(f"raise({self.hid})")
                raise
            finally:
                rig.origin = None

        def handle(self, received_bytes, sender):
            rig = self.rig
            rig.count += 1
            rig.events.append(f"hd({self.hid},{dec_dgram(received_bytes)})")
            self.stats["answered"] = True
            rig.dispatched_now.add(self.hid)
            acts, raises = self._react(self.row["hreact"], received_bytes)
            if not acts and raises:
                rig.pure_raise = True
            self._run(acts, raises, received_bytes, sender)
            rig.handled_ok.add(self.hid)

        def _on_handled_cb(self, sender):
            dg = self.rig.dg_stack[-1]          # the datagram of THIS dispatch level (handle of the same handler may have run nested meanwhile)
            acts, raises = self._react(self.row["oreact"], dg)
            self._run(acts, raises, dg, sender)

        def loop(self, socket):
            if self.has_timedout:
                self.rig.events.append(f"to({self.hid})")
                self.stats["timeouts"] += 1
                self.rig.timedout_now.add(self.hid)
            self.rig.origin = "retry"
            try:
                return super().loop(socket)
            finally:
                self.rig.origin = None

    _CLASSES.update(RigSocket=RigSocket, RigSpa=RigSpa, ScriptedHandler=ScriptedHandler, Base=GeckoUdpProtocolHandler, Sock=GeckoUdpSocket)
    return _CLASSES


# ------------------------------------------------------------------------------------------------ the generic rig
class Rig:
    """one real GeckoUdpSocket with scripted handlers; executes the same op lines as lean/Driver/C20.lean"""

    def __init__(self, ctx):
        self.ctx = ctx
        self.script = []
        self.features = set()
        self.sock = None

    # --- callbacks from the instrumented real objects
    def on_pop(self, entry):
        self._flush_pop()
        self.pending_pop = entry
        self.pop_log.append(entry)

    def _flush_pop(self):
        if self.pending_pop is not None:
            h, d = self.pending_pop
            self.pending_pop = None
            self.events.append(f"fail({getattr(h, 'hid', '?')},{dest_id(d)})")
            self.features.add("send-failed")
            origin, had_dest = self.enq_origin[len(self.pop_log) - 1] if len(self.pop_log) <= len(self.enq_origin) else (None, False)
            if origin == "retry" and d is None and had_dest and h.row["sendable"]:
                self.violation("retry-lost:timeout-before-first-transmission",
                               "every retransmission queued by retry() is transmitted (1 + N datagrams for an unanswered request)",
                               f"handler {h.hid} timed out before its first transmission: retry() queued (handler, last_destination=None); the entry was "
                               f"popped and dropped with an AssertionError, so one of the N retransmissions never reached the wire")

    def on_send(self, data, dest):
        h, d = self.pending_pop if self.pending_pop is not None else (None, None)
        self.pending_pop = None
        hid = int(data[1:])
        self.events.append(f"sent({hid},{dest_id(dest)},{self.clk.us})")
        self.sent_log.append((self.clk.us, hid, dest))
        if h is not None:
            h.stats["first_sent"] = True
            origin = self.enq_origin[len(self.pop_log) - 1][0] if len(self.pop_log) <= len(self.enq_origin) else None
            if origin == "retry" and h.stats["answered"] and not h.stats["foreign"] and h.stats["regs"] == 1 and h._should_remove_handler \
                    and h not in self.sock._receive_handlers:
                self.violation("answered:retransmission-after-answer", "a request is removed without further transmission once answered",
                               f"handler {h.hid} was answered and removed, but the retransmission retry() had queued before the reply arrived "
                               f"(held back by the throttle / a backlog) was still transmitted at {self.clk.us} us")
            if h.hid != hid or (d is not None and tuple(d[:2]) != tuple(dest)):
                self.violation("fifo:transmitted-differs-from-popped", "sendto gets the popped handler's bytes and destination", f"popped {h.hid}->{d}, sent {hid}->{dest}")
        if len(self.sent_log) >= 2:
            gap = self.sent_log[-1][0] - self.sent_log[-2][0]
            if gap * self.rate < US:
                self.violation("paced:gap", f"consecutive transmissions at least 1/{self.rate} s apart", f"gap {gap} us")
            if gap == self.gap_floor + 1:
                self.features.add("sent-at-first-passing-gap")
        elif (self.clk.us - self.t0) * self.rate < US:
            self.violation("paced:first-after-construction", "first transmission at least one throttle period after construction", f"{self.clk.us - self.t0} us")

    def on_queue_send(self, h, dest):
        origin = self.origin or "client"
        self.events.append(f"enq({getattr(h, 'hid', '?')},{dest_id(dest)})")
        self.enq_log.append((h, dest))
        # (who called queue_send, had this handler instance been queued with a real destination before?)
        self.enq_origin.append((origin, bool(getattr(h, "stats", {}).get("queued_dest"))))
        if dest is not None and hasattr(h, "stats"):
            h.stats["queued_dest"] = True
        if origin == "retry" and hasattr(h, "stats"):
            # every attempt gets its whole timeout: retry() fires at most once per T (whatever keeps the retransmission in the queue)
            prev = h.stats.get("last_retry_us")
            h.stats["last_retry_us"] = self.clk.us
            t_us = to_us(h._timeout_in_seconds)
            if prev is not None and t_us > 0 and self.clk.us - prev < t_us and not h.stats.get("foreign"):   # (foreign = a scripted handler called retry() itself)
                self.violation("retry:before-timeout-elapsed", f"consecutive retransmissions of one request at least its timeout ({t_us} us) apart",
                               f"handler {h.hid}: retry() queued retransmissions at {prev} us and {self.clk.us} us")
            h.stats["retry_enq"] += 1
            if h.stats["retry_enq"] > h.row["retries"]:
                self.violation("retry:more-than-N-retransmissions", "a handler constructed with retry_count N is re-queued by retry() at most N times",
                               f"handler {h.hid}: N={h.row['retries']}, re-queue #{h.stats['retry_enq']}")
            if h not in self.sock._receive_handlers:
                self.violation("answered:retransmission-of-unregistered-handler", "no retransmission once a handler is removed", f"handler {h.hid}")

    def on_add(self, h):
        self.adds_now.append(h)
        if hasattr(h, "stats"):
            h.stats["regs"] += 1

    def snapshot_state(self):
        s = self.sock
        return ([(id(h), d) for h, d in s._send_handlers], [id(h) for h in s._receive_handlers],
                {k: (h._start_time, h._retry_count, h._should_remove_handler, h.last_destination) for k, h in self.inst.items()}, s._last_send_time)

    wants_isolation_check = True

    def on_dispatched(self, b, snap, expected, called, before):
        if expected == "can_handle-raised":
            return
        if expected is not called:
            self.violation("first-match:wrong-target", "the datagram is handled by the first registered handler whose can_handle is true, by nobody if none",
                           f"datagram {dec_dgram(b)}: expected {getattr(expected, 'hid', None)}, handle() called on {getattr(called, 'hid', None)}")
        if called is None:
            self.events.append(f"un({dec_dgram(b)})")
            self.features.add("unhandled")
        else:
            acc = [h for h in snap if h.can_handle(b, None)]
            if len({id(h) for h in acc}) >= 2:
                self.features.add("overlapping-acceptors")
            if acc and snap.index(acc[0]) > 0:
                self.features.add("first-match-not-head")
        if self.pure_raise and before is not None:
            after = self.snapshot_state()
            if after != before:
                self.violation("isolation:state-changed", "a handle() that raises at once changes no queue, no handler list, no timer", "engine state differs after the dispatch")
            self.features.add("raise-in-handle-isolated")
        self.pure_raise = False

    def violation(self, key, expected, observed):
        self.ctx.violation(key, {"kind": "script", "ops": list(self.script)}, expected, observed)
        self.found.append(key)

    # --- op execution
    def do(self, op):
        """execute one op line on the real engine; returns the canonical answer line"""
        self.script.append(op)
        p = op.split(" ")
        self.events = []
        try:
            ans = self._do(p)
        except Exception as e:  # noqa  (a mutated tree must give a verdict, not a crash)
            ans = f"EXC {type(e).__name__}: {e}"
        return ans

    def _do(self, p):
        C = classes()
        if p[0] == "new":
            self.clk = FClock(int(p[1]))
            _CUR[0] = self.clk
            self.t0 = self.clk.us
            self.rows, self.inst = {}, {}
            self.count, self.alive, self.loop_raises, self.origin = 0, True, False, None
            self.pending_pop, self.pop_log, self.enq_log, self.enq_origin, self.sent_log = None, [], [], [], []
            self.adds_now, self.found, self.pure_raise, self.dg_stack = [], [], False, []
            self.dispatched_now, self.handled_ok, self.timedout_now = set(), set(), set()
            self.mock = MockSock(self.clk)
            self.mock.on_recv = self._flush_pop
            self.mock.on_send = self.on_send
            self.sock = C["RigSocket"](self, self.mock)
            self.sock._exit_event = StepEvent()
            self.sock._send_handlers = RecList(self)
            self.rate = C["Sock"]._SENDING_THROTTLE_RATE_PER_SECOND
            self.gap_floor = US // self.rate
            return self.show()
        if p[0] == "spec":
            row = dict(id=int(p[1]), mask=int(p[2]), pk=p[3] == "1", timeout=int(p[4]), retries=int(p[5]), onfail=p[6], sendable=p[7] == "1", hreact=[], oreact=[])
            self.rows[row["id"]] = row
            self.inst[row["id"]] = C["ScriptedHandler"](self, row)
            return self.show()
        if p[0] == "react":
            acts = [] if p[4] == "-" else p[4].split(",")
            self.rows[int(p[1])]["hreact" if p[2] == "h" else "oreact"].append((p[3], acts, p[5] == "1"))
            return "ok"
        if p[0] == "loopraise":
            self.loop_raises = p[1] == "1"
            return "ok"
        if p[0] == "create":
            self.inst[int(p[1])].construct()
            if self.inst[int(p[1])] in self.sock._receive_handlers:
                self.inst[int(p[1])].stats["foreign"] = True        # re-constructed while registered: not a plain request life cycle
            return self.show()
        if p[0] == "reg":
            self.sock.add_receive_handler(self.inst[int(p[1])])
            self.adds_now = []
            return self.show()
        if p[0] == "qs":
            h = self.inst[int(p[1])]
            h.stats["client_enq"] += 1
            self.origin = "client"
            self.sock.queue_send(h, dest_tuple(None if p[2] == "n" else int(p[2])))
            self.origin = None
            self.check_fifo()
            return self.show()
        if p[0] == "iter":
            if not self.alive:
                return self.show()
            self.iteration(int(p[1]), int(p[2]), None if p[3] == "-" else p[3])
            return self.show()
        raise ValueError("bad op")

    def iteration(self, a, b, dg):
        s = self.sock
        self.clk.us += a
        self.mock.dt_recv = b
        self.mock.pending = None if dg is None else (enc_dgram(dg), ("10.9.9.9", 1))
        before = list(s._receive_handlers)
        gap_before = self.clk.us - to_us(s._last_send_time)
        had_queue = bool(s._send_handlers)
        nsent = len(self.sent_log)
        self.adds_now, self.dispatched_now, self.handled_ok, self.timedout_now = [], set(), set(), set()
        s._exit_event.stop = False
        cause = None
        try:
            s._thread_func()            # the REAL loop body, once
        except Exception as e:  # noqa
            cause = str(e) if isinstance(e, ScriptedError) else f"{type(e).__name__}: {e}"
            self._flush_pop()
            self.events.append("died")
            self.alive = False
        self._flush_pop()
        # ---- monitors on what the real engine just did (no model involved)
        if had_queue and gap_before == self.gap_floor and len(self.sent_log) == nsent:
            self.features.add("throttled-at-exact-period")
        if had_queue and gap_before == self.gap_floor - 1 and len(self.sent_log) == nsent:
            self.features.add("throttled-just-below")
        self.check_fifo()
        if cause is not None:
            self.features.add("engine-died")
            if cause == "on_retry_failed":
                self.violation("engine-stopped:on_retry_failed-raises", "a handler exception never stops the engine",
                               "an exception raised by a handler's on_retry_failed callback escaped handler.loop -> _thread_func: the engine thread ends, "
                               "no further send / receive / timeout processing")
            elif cause != "_loop_func":
                self.violation("engine-stopped:" + cause.split(":")[0], "a handler exception never stops the engine", f"exception escaped _thread_func: {cause}")
            return
        after = list(s._receive_handlers)
        want = [h for h in before + self.adds_now if not h.should_remove_handler]
        if [id(h) for h in after] != [id(h) for h in want]:
            self.violation("cleanup:handler-list", "after an iteration the list is (previous + added) minus exactly the handlers flagged for removal, order kept",
                           f"got {[h.hid for h in after]}, want {[h.hid for h in want]}")
        for hid in self.handled_ok & self.timedout_now:
            h = self.inst[hid]
            if h.row["hreact"] is not None and not any("C%d" % hid in acts for _, acts, _ in h.row["hreact"] + h.row["oreact"]):
                self.violation("answered:timed-out-in-the-iteration-it-was-answered", "handled() resets the timeout: no retransmission in the iteration a reply is handled",
                               f"handler {hid}")
        for h in before:
            if h in after or not hasattr(h, "stats"):
                continue
            st, row = h.stats, h.row
            if st["answered"]:
                self.features.add("answered-removed")
            if h.hid in self.timedout_now and not st["answered"] and not st["foreign"] and row["onfail"] == "r" and st["regs"] == 1:
                self.features.add("retry-exhausted-removed")
                if st["retry_enq"] != row["retries"] or st["timeouts"] != row["retries"] + 1:
                    self.violation("retry:count", "unanswered request: exactly N re-queues, removed at the (N+1)-th timeout",
                                   f"handler {h.hid}: N={row['retries']} re-queues={st['retry_enq']} timeouts={st['timeouts']}")
        for h in after:
            if hasattr(h, "stats") and h.hid in self.timedout_now and h.row["onfail"] == "r" and h._retry_count == 0 and not h.stats["foreign"] \
                    and h.stats["regs"] == 1 and h.stats["timeouts"] > h.row["retries"] and not h.stats["answered"]:
                self.violation("retry:not-removed-at-last-timeout", "removed in the iteration that detects the (N+1)-th timeout", f"handler {h.hid} still registered")
        for hid in self.timedout_now:
            h = self.inst[hid]
            T = h.row["timeout"]
            self.features.add("timeout-fired")
        for h in after:
            if hasattr(h, "row") and h.row["timeout"] and self.clk.us - to_us(h._start_time) == h.row["timeout"]:
                self.features.add("age-equals-timeout-not-fired")
        if dg is not None and dg.startswith("p") and any(e.startswith("hd(") and not e.split(",")[1].startswith("p") for e in self.events):
            self.features.add("nested-dispatch")
        if any(e.startswith("raise(") for e in self.events):
            self.features.add("exception-swallowed")

    def check_fifo(self):
        n = len(self.pop_log)
        if [(id(h), d) for h, d in self.pop_log] != [(id(h), d) for h, d in self.enq_log[:n]]:
            self.violation("fifo:order", "datagrams leave the queue in queue_send order", f"popped {[(h.hid, dest_id(d)) for h, d in self.pop_log[-3:]]}")
        if len(self.enq_log) - n != len(self.sock._send_handlers):
            self.violation("fifo:queue-length", "queue = calls - pops", f"{len(self.enq_log)} calls, {n} pops, {len(self.sock._send_handlers)} queued")

    def show(self):
        s = self.sock
        q = ",".join(f"{h.hid}:{dest_id(d)}" for h, d in s._send_handlers) or "-"
        hl = ",".join(str(h.hid) for h in s._receive_handlers) or "-"
        st = ";".join(f"{k}:{to_us(h._start_time)}:{h._retry_count}:{int(h._should_remove_handler)}:{dest_id(h.last_destination)}" for k, h in self.inst.items()) or "-"
        return (f"t={self.clk.us} ls={to_us(s._last_send_time)} q={q} H={hl} S={st} c={self.count} alive={int(self.alive)} "
                f"out={' '.join(self.events) or '-'}")


# ------------------------------------------------------------------------------------------------ script generation (online: aims at boundaries)
TIMEOUTS = [0, 0, 15000, 20001, 50000, 100000, 250000]


def gen_acts(rng, n, key):
    acts = []
    for _ in range(rng.choice([0, 0, 1, 1, 2, 3])):
        r = rng.random()
        k = rng.randrange(1, n + 1)
        if r < 0.30:
            acts.append("R")
        elif r < 0.50:
            acts.append(f"S{k}:{'n' if rng.random() < 0.1 else rng.randrange(1, 6)}")
        elif r < 0.62:
            acts += [f"C{k}", f"A{k}", f"S{k}:{rng.randrange(1, 6)}"]
        elif r < 0.70:
            acts.append(f"A{k}")
        elif r < 0.76:
            acts.append(f"C{k}")
        elif r < 0.90:
            if key == "p" or rng.random() < 0.2:
                acts.append("U")
        else:
            acts.append("T")
    return acts


def gen_script(ctx, rng, rig, maxops):
    """generates and executes; returns [(op, impl answer)]"""
    out = []

    def do(op):
        out.append((op, rig.do(op)))
    n = rng.randrange(2, 6)
    do(f"new {rng.choice([0, 1000, 123456, 999999999])}")
    quiet = rng.random() < 0.35          # some scripts: plain request handlers, so retry/answer life cycles run to their end
    for i in range(1, n + 1):
        mask = rng.randrange(0, 32) if not quiet else (1 << rng.randrange(0, 5))
        pk = 1 if rng.random() < 0.3 else 0
        onfail = rng.choice(["r", "r", "r", "r", "n", "x" if rng.random() < 0.25 else "r"])
        do(f"spec {i} {mask} {pk} {rng.choice(TIMEOUTS)} {rng.choice([0, 1, 2, 3])} {onfail} {0 if rng.random() < 0.07 else 1}")
    for i in range(1, n + 1):
        if quiet:
            if rng.random() < 0.7:
                do(f"react {i} h * R 0")
            continue
        for key in ["*"] + (["p"] if rig.rows[i]["pk"] else []) + [str(v) for v in range(5) if rng.random() < 0.25]:
            if key == "p" and rng.random() < 0.8:
                do(f"react {i} h p U {1 if rng.random() < 0.1 else 0}")
            else:
                do(f"react {i} h {key} {','.join(gen_acts(rng, n, key)) or '-'} {1 if rng.random() < 0.15 else 0}")
            if rng.random() < 0.5:
                do(f"react {i} o {key} {','.join(gen_acts(rng, n, key)) or '-'} {1 if rng.random() < 0.12 else 0}")
    if rng.random() < 0.05:
        do("loopraise 1")
    order = list(range(1, n + 1))
    rng.shuffle(order)
    for i in order:
        if rng.random() < 0.85:
            do(f"reg {i}")
    gap = rig.gap_floor
    while len(out) < maxops:
        s = rig.sock
        r = rng.random()
        if r < 0.22:
            for _ in range(rng.choice([1, 1, 2, 4])):
                do(f"qs {rng.randrange(1, n + 1)} {'n' if rng.random() < 0.06 else rng.randrange(1, 6)}")
        elif r < 0.27:
            do(f"reg {rng.randrange(1, n + 1)}")
        elif r < 0.30:
            do(f"create {rng.randrange(1, n + 1)}")
        else:
            since = rig.clk.us - to_us(s._last_send_time)
            if s._send_handlers and rng.random() < 0.55:
                a = max(0, gap + rng.choice([-2, -1, -1, 0, 0, 1, 1, 2, 7]) - since)
            else:
                a = rng.choice([0, 0, 1, 500, 5000, gap - 1, gap, gap + 1, 50000])
            b = rng.choice([0, 1, 1000, 50000])
            cands = [h for h in s._receive_handlers if h._timeout_in_seconds > 0]
            if cands and rng.random() < 0.6:
                h = rng.choice(cands)
                age = rig.clk.us + a - to_us(h._start_time)
                b = max(0, to_us(h._timeout_in_seconds) + rng.choice([-1, 0, 0, 1, 1, 2]) - age)
            x = rng.random()
            if x < 0.35:
                dg = "-"
            elif x < 0.80:
                dg = str(rng.randrange(0, 6))
            elif x < 0.95:
                dg = "p" + str(rng.randrange(0, 6))
            else:
                dg = "pp" + str(rng.randrange(0, 6))
            do(f"iter {a} {b} {dg}")
    return out


CORPUS = [
    # a request (T = 100 ms, N = 3) times out while three other sends sit in front of its retransmission in the throttled queue:
    # the retransmission leaves 60 ms later; the request must still get a whole timeout per attempt
    ["new 0", "spec 1 1 0 100000 3 r 1", "spec 2 0 0 0 0 n 1", "reg 1", "qs 1 3", "iter 20001 0 -", "qs 2 4", "qs 2 4", "qs 2 4",
     "iter 0 100001 -", "iter 20001 0 -", "iter 20001 0 -", "iter 20001 0 -", "iter 20001 0 -", "iter 20001 0 -", "iter 0 100001 -",
     "iter 20001 0 -", "iter 0 100001 -", "iter 20001 0 -", "iter 0 100001 -", "iter 20001 0 -"],
    # F1 (fixed in 0fc5c99): B (timeout 15 ms < throttle period) is queued right after A was sent: B times out before its first transmission
    ["new 0", "spec 1 0 0 0 0 n 1", "spec 2 0 0 15000 2 r 1", "reg 1", "qs 1 3", "iter 20001 1000 -", "create 2", "reg 2", "qs 2 4",
     "iter 1000 14001 -", "iter 5001 1000 -", "iter 20001 1000 -", "iter 20001 1000 -", "iter 20001 1000 -", "iter 20001 1000 -"],
    # F2 (fixed in 5389183): on_retry_failed raises
    ["new 0", "spec 1 1 0 50000 0 x 1", "spec 2 2 0 0 0 n 1", "reg 1", "reg 2", "qs 2 1", "iter 0 50001 -", "iter 20001 0 1", "iter 20001 0 1"],
    # F3: a retransmission still queued (throttled) when the reply is handled is transmitted after the handler is gone
    ["new 0", "spec 1 6 0 100000 2 r 1", "spec 2 0 0 0 0 n 1", "react 1 h 2 R 0", "reg 1", "qs 1 3", "iter 20001 0 -", "qs 2 4",
     "iter 100000 1 -", "iter 1000 0 2", "iter 20001 0 -", "iter 20001 0 -"],
    # boundary: exactly one period -> throttled; one microsecond more -> sent;  age == timeout -> not fired; +1 -> fired, N = 1, then removed
    ["new 1000", "spec 1 1 0 100000 1 r 1", "reg 1", "qs 1 2", "iter 20000 0 -", "iter 1 0 -", "iter 0 99999 -", "iter 0 1 -",
     "iter 20001 79999 -", "iter 0 1 -", "iter 0 100001 -"],
    # first match with overlapping acceptors, raising first handler, nested packet dispatch
    ["new 0", "spec 1 0 1 0 0 n 1", "spec 2 6 0 0 0 n 1", "spec 3 4 0 0 0 n 1", "react 1 h p U 0", "react 2 h 2 - 1", "react 3 h * R 0",
     "reg 1", "reg 2", "reg 3", "iter 0 0 2", "iter 0 0 p2", "iter 0 0 pp1", "iter 0 0 p7", "iter 0 0 3"],
    # answered: reply handled -> removed at this clean-up, next handler created + registered + queued by on_handled (the handshake pattern)
    ["new 0", "spec 1 3 0 100000 2 r 1", "spec 2 12 0 100000 2 r 1", "react 1 h 1 R 0", "react 1 o 1 C2,A2,S2:5 0", "reg 1", "qs 1 5",
     "iter 20001 0 -", "iter 0 100001 -", "iter 20001 0 1", "iter 20001 0 -", "iter 0 100001 1", "iter 0 0 3"],
]


# ------------------------------------------------------------------------------------------------ the handshake rig
VERBS_REQ = {b"AVERS": "V", b"CURCH": "C", b"SFILE": "F", b"STATU": "B"}
VERBS_REP = {b"SVERS": "V", b"CHCUR": "C", b"FILES": "F", b"STATV": "B"}


def inner_verb(data):
    i = data.find(b"<DATAS>")
    return data[i + 7:i + 12] if i >= 0 else None


def usable_snapshots():
    from geckolib.utils.snapshot import GeckoSnapshot
    out = []
    for f in sorted((REPO / "tests" / "snapshots").glob("*.snapshot")):
        try:
            snaps = GeckoSnapshot.parse_log_file(str(f))
            if len(snaps) != 1:
                continue
            s = snaps[0]
            key = s.packtype.lower()
            for m in (key, f"{key}-cfg-{s.config_version}", f"{key}-log-{s.log_version}"):
                importlib.import_module("geckolib.driver.packs." + m)
            out.append(f.name)
        except Exception:
            continue
    return out


class HandshakeRig:
    """real GeckoSpa (start_connect unmodified, no thread) against the real GeckoSimulator's handlers; both engines stepped"""

    wants_isolation_check = False
    loop_raises = False

    def __init__(self, ctx, inp):
        self.ctx, self.inp = ctx, inp
        self.hev, self.enq_count, self.found = [], {"V": 0, "C": 0, "F": 0, "B": 0}, []
        self.origin, self.pure_raise, self.dg_stack = None, False, []
        self.first_match_checks = 0

    # monitor callbacks (shared mixin)
    def on_queue_send(self, h, dest):
        try:
            v = VERBS_REQ.get(h._content[:5]) if getattr(h, "_content", None) else None
        except Exception:
            v = None
        if v and h.__class__.__name__ != "GeckoPacketProtocolHandler" and self.who == "client":
            self.enq_count[v] += 1

    def on_add(self, h):
        pass

    def on_pop(self, x):
        pass

    def snapshot_state(self):
        return None

    def on_dispatched(self, b, snap, expected, called, before):
        self.first_match_checks += 1
        if expected != "can_handle-raised" and expected is not called:
            self.violation("first-match:wrong-target", "first registered handler whose can_handle is true", f"{b[:40]!r}: expected {expected!r} got {called!r}")

    def violation(self, key, expected, observed):
        self.ctx.violation(key, dict(self.inp), expected, observed)
        self.found.append(key)

    def run(self):
        C = classes()
        from geckolib.utils.simulator import GeckoSimulator
        from geckolib.utils.snapshot import GeckoSnapshot
        from geckolib.driver.spastruct import GeckoStructure
        from geckolib.driver import (GeckoVersionProtocolHandler, GeckoGetChannelProtocolHandler, GeckoConfigFileProtocolHandler,
                                     GeckoStatusBlockProtocolHandler)
        import geckolib.config as cfg
        import geckolib.driver.udp_socket as us_mod
        import geckolib.spa as spa_mod
        inp = self.inp
        rng = random.Random(inp["seed"])
        vloop.reset_config()
        cfg.GeckoConfig.PROTOCOL_RETRY_COUNT = inp["budget"]
        cfg.GeckoConfig.PROTOCOL_TIMEOUT_IN_SECONDS = inp["timeout_s"]
        clk = FClock(inp.get("t0", 5000000))
        _CUR[0] = clk
        req_classes = (GeckoVersionProtocolHandler, GeckoGetChannelProtocolHandler, GeckoConfigFileProtocolHandler, GeckoStatusBlockProtocolHandler)
        snap = GeckoSnapshot.parse_log_file(str(REPO / "tests" / "snapshots" / inp["snapshot"]))[0]
        to_client, to_sim = [], []          # FIFO network: (deliver_at_tick, bytes, from)
        attempt = {"V": 0, "C": 0, "F": 0, "B": 0}
        mode = {"V": "ok", "C": "ok", "F": "ok", "B": "ok"}
        plan = inp["plan"]
        tick = [0]
        dropped = []

        def client_send(data, dest):
            v = VERBS_REQ.get(inner_verb(data))
            if v:
                attempt[v] += 1
                m = plan[v][attempt[v] - 1] if attempt[v] <= len(plan[v]) else "ok"
                mode[v] = m
                if m == "req":
                    dropped.append(("req", v, attempt[v]))
                    return
            to_sim.append((tick[0] + 1 + rng.randrange(0, 2), data, CLIENT_ADDR))

        def sim_send(data, dest):
            v = VERBS_REP.get(inner_verb(data))
            if v:
                m = mode[v]
                if m == "rep":
                    dropped.append(("rep", v, attempt[v]))
                    return
                if isinstance(m, list) and v == "B":
                    i = data.find(b"<DATAS>") + 12
                    if data[i] in m:
                        dropped.append(("seg", data[i], attempt[v]))
                        return
            to_client.append((tick[0] + 1 + rng.randrange(0, 2), data, _Desc.destination))
        saved = (us_mod.threading, spa_mod.threading, C["Base"].loop)
        rig = self

        def loop_obs(handler, socket):
            if socket is rig.spa and isinstance(handler, req_classes) and handler.has_timedout:
                rig.hev.append("t")
            return saved[2](handler, socket)
        try:
            us_mod.threading = FakeThreading
            spa_mod.threading = FakeThreading
            C["Base"].loop = loop_obs
            # ---- the simulator: real handlers, real structure, snapshot loaded, socket never opened
            self.who = "sim"
            import builtins
            real_print = builtins.print
            builtins.print = lambda *a, **k: None          # the simulator chats on stdout
            try:
                sim = GeckoSimulator()                     # the real constructor; only its socket is replaced by the stepped rig socket
            finally:
                builtins.print = real_print
            smock = MockSock(clk)
            smock.on_send = sim_send
            sim._socket = C["RigSocket"](self, smock)
            sim._socket._exit_event = StepEvent()
            sim._install_standard_handlers()
            sim._reliability = 1.0
            sim.set_snapshot(snap)
            # ---- the client
            self.who = "client"
            spa = C["RigSpa"](self, _Desc())
            self.spa = spa
            cmock = MockSock(clk)
            cmock.on_send = client_send
            spa._socket = cmock
            spa.start_connect()               # the real method: open() with the fake threading module starts nothing
            if not isinstance(spa._exit_event, StepEvent):
                raise RuntimeError("rig: start_connect did not go through the patched threading module")
            cli0 = spa.struct.status_block
            result = "running"
            for it in range(inp.get("max_iter", 60000)):
                tick[0] = it
                for eng, mock, q, who in ((spa, cmock, to_client, "client"), (sim._socket, smock, to_sim, "sim")):
                    self.who = who
                    mock.pending = None
                    if q and q[0][0] <= it:
                        _, data, frm = q.pop(0)
                        mock.pending = (data, frm)
                        if who == "client":
                            v = VERBS_REP.get(inner_verb(data))
                            if v == "B":
                                i = data.find(b"<DATAS>") + 12
                                self.hev.append(f"s{data[i]}")
                            elif v:
                                self.hev.append(v)
                    mock.dt_recv = rng.choice([200, 1000, 3000]) if mock.pending else rng.choice([50000, 50000, 20000])
                    eng._exit_event.stop = False
                    try:
                        eng._thread_func()
                    except Exception as e:  # noqa
                        self.violation(f"engine-stopped:handshake:{who}", "the engine keeps running", f"{type(e).__name__}: {e}")
                        result = "died"
                        break
                if result == "died":
                    break
                present = [h for h in spa._receive_handlers if isinstance(h, req_classes)]
                if spa._is_connected:
                    result = "connected"
                    break
                if not present and not to_client and not to_sim and not spa._send_handlers and not sim._socket._send_handlers:
                    result = "stalled"
                    break
            self.who = "done"
            try:
                connected = spa.is_connected
            except Exception as e:  # noqa
                connected = f"raised {type(e).__name__}"
            stage = "connected" if spa._is_connected else result
            if result == "running":
                names = {GeckoVersionProtocolHandler: "version", GeckoGetChannelProtocolHandler: "channel", GeckoConfigFileProtocolHandler: "config",
                         GeckoStatusBlockProtocolHandler: "block"}
                stage = next((names[type(h)] for h in spa._receive_handlers if type(h) in names), "stalled")
            blk = spa.struct.status_block
            return dict(stage=stage, connected=connected, block=blk, simblock=sim.structure.status_block, cli0=cli0, enq=dict(self.enq_count),
                        inst=spa.struct.had_at_least_one_block, hev=list(self.hev), dropped=dropped, clock=clk.us, client_sent=len(cmock.sent),
                        gaps_ok=all((b[0] - a[0]) * 50 >= US for a, b in zip(cmock.sent, cmock.sent[1:])),
                        first_match_checks=self.first_match_checks)
        finally:
            us_mod.threading, spa_mod.threading, C["Base"].loop = saved
            vloop.reset_config()


def gen_plan(rng, budget, within):
    """loss plan per request verb: list of per-attempt modes before the attempt that gets through"""
    plan = {}
    over = None if within else rng.choice(["V", "C", "F", "B"])
    for v in ("V", "C", "F", "B"):
        k = rng.choice([0, 0, 1, min(2, budget), budget]) if budget else 0
        if v == over:
            k = budget + 1
        modes = []
        for _ in range(k):
            if v == "B":
                r = rng.random()
                if r < 0.3:
                    modes.append("req")
                elif r < 0.45:
                    modes.append("rep")                                 # the whole chain lost
                elif r < 0.7:
                    modes.append([26])                                  # final segment lost: timeout, assembly state kept
                else:
                    modes.append(sorted(rng.sample(range(0, 26), rng.choice([1, 2, 5]))))     # out-of-sequence final: immediate retry
            else:
                modes.append(rng.choice(["req", "rep"]))
        plan[v] = modes
    return plan


def handshake_case(ctx, inp, lines, impl_ans, oracle=True):
    rig = HandshakeRig(ctx, inp)
    try:
        res = rig.run()
    except Exception as e:  # noqa
        ctx.violation("handshake:raised", inp, "the stepped handshake runs", f"{type(e).__name__}: {e}")
        return None
    lines.append(f"blk spa {res['simblock'].hex()}")
    impl_ans.append("ok")
    lines.append(f"blk cli {res['cli0'].hex()}")
    impl_ans.append("ok")
    lines.append(f"hs {inp['budget']} 0 1024 {','.join(res['hev']) or '-'}")
    impl_ans.append(f"stage={res['stage']} sv={res['enq']['V']} sc={res['enq']['C']} sf={res['enq']['F']} sb={res['enq']['B']} "
                    f"inst={int(bool(res['inst']))} chk={checksum(res['block'])} len={len(res['block'])}")
    if oracle and inp["within"]:
        if res["connected"] is not True:
            ctx.violation("handshake:not-connected", inp, "is_connected after a loss pattern that lets one attempt per step through",
                          f"stage={res['stage']} is_connected={res['connected']} dropped={res['dropped'][:8]}")
        elif res["block"] != res["simblock"]:
            bad = [i for i in range(min(len(res["block"]), len(res["simblock"]))) if res["block"][i] != res["simblock"][i]][:5]
            ctx.violation("handshake:block-differs", inp, "client block identical to the simulator's", {"first_differing": bad, "len": len(res["block"])})
        if not res["gaps_ok"]:
            ctx.violation("paced:gap", inp, "client transmissions at least 1/50 s apart", "a shorter gap during the handshake")
    return res


# ------------------------------------------------------------------------------------------------ real threads (thorough; a TEST, supporting evidence only)
def real_thread_test(ctx):
    """the engine's own thread on a mock socket with the real clock: FIFO, pacing, retry count. Not part of the proof tie."""
    C = classes()
    res = {"runs": 0, "problems": []}

    class TSock:
        def __init__(self):
            self.sent, self.lock = [], threading.Lock()

        def settimeout(self, t):
            pass

        def close(self):
            pass

        def sendto(self, data, dest):
            with self.lock:
                self.sent.append((realtime.monotonic(), data, dest))

        def recvfrom(self, n):
            realtime.sleep(0.002)
            raise pysocket.timeout()

    class H(C["Base"]):
        def can_handle(self, b, s):
            return False

        def handle(self, b, s):
            pass
    def wait(s, cond, limit):
        t_end = realtime.monotonic() + limit
        while realtime.monotonic() < t_end and not cond():
            realtime.sleep(0.005)

    for n_retry in (1, 3):
        for backlog in (False, True):
            ts = TSock()
            s = C["Sock"](ts)
            s.open()
            try:
                hs = [H(send_bytes=b"M%d" % i) for i in range(8)]
                for i, h in enumerate(hs):
                    s.queue_send(h, ("10.0.0.1", 1000 + i))
                if not backlog:
                    wait(s, lambda: not s._send_handlers, 2.0)          # the request goes out at once: first transmission before its first timeout
                rh = H(send_bytes=b"RETRY", timeout=0.06, retry_count=n_retry, on_retry_failed=C["Base"]._default_retry_failed_handler)
                s.add_receive_handler(rh)
                s.queue_send(rh, ("10.0.0.2", 1))
                wait(s, lambda: not s._receive_handlers and not s._send_handlers, 0.06 * (n_retry + 1) + 8 * 0.02 + 2.0)
                realtime.sleep(0.1)
            finally:
                s.close()
            sent = list(ts.sent)
            order = [d for _, d, _ in sent if d.startswith(b"M")]
            if order != [b"M%d" % i for i in range(8)]:
                res["problems"].append(f"order {order}")
            gaps = [b[0] - a[0] for a, b in zip(sent, sent[1:])]
            if any(g < 0.02 - 1e-4 for g in gaps):
                res["problems"].append(f"gap {min(gaps):.5f}")
            nre = len([1 for _, d, _ in sent if d == b"RETRY"])
            if backlog:
                # the request waits 160 ms behind 8 datagrams with a 60 ms timeout: its first timeouts precede its first transmission
                res.setdefault("timeout_before_first_transmission_on_real_thread", []).append(f"N={n_retry}: {nre} of {1 + n_retry} datagrams transmitted")
            if nre != 1 + n_retry or s._receive_handlers:
                res["problems"].append(f"retry handler: {nre} transmissions for N={n_retry}, still registered={bool(s._receive_handlers)}")
            res["runs"] += 1
    return res


# ------------------------------------------------------------------------------------------------ run / replay
def run_script_ops(ctx, ops):
    rig = Rig(ctx)
    out = [(op, rig.do(op)) for op in ops]
    return rig, out


def search_cleanup_race(ctx, only=None):
    """REAL threads: the engine's clean-up step is stopped before each of its source lines in turn (line-granular pre-emption via
    sys.settrace) while a client thread registers a new request with `add_receive_handler`; afterwards the new request must be
    registered (its answer is dispatched to it), the finished one gone, the unfinished one still there - whatever the pre-emption point"""
    import sys
    import threading
    from geckolib.driver.udp_socket import GeckoUdpSocket
    from geckolib.driver import GeckoUdpProtocolHandler

    class H(GeckoUdpProtocolHandler):
        def __init__(self, tag, remove):
            super().__init__()
            self.tag, self._rm, self.n = tag, remove, 0

        def can_handle(self, received_bytes, sender):
            return received_bytes == self.tag

        def handle(self, received_bytes, sender):
            self.n += 1

        @property
        def should_remove_handler(self):
            return self._rm
    code = GeckoUdpSocket._cleanup_handlers.__code__
    k, points = 0, 0
    while k < 60:
        if only is not None and k != only:
            if k > only:
                break
            k += 1
            continue
        s = GeckoUdpSocket()
        keep, gone, new = H(b"K", False), H(b"G", True), H(b"N", False)
        s.add_receive_handler(keep)
        s.add_receive_handler(gone)
        paused, resume = threading.Event(), threading.Event()
        seen = {"n": 0, "line": None}

        def tracer(frame, event, arg):
            if frame.f_code is not code:
                return None

            def local(frame, event, arg):
                if event == "line":
                    if seen["n"] == k:
                        seen["line"] = frame.f_lineno - code.co_firstlineno
                        paused.set()
                        resume.wait(5)
                    seen["n"] += 1
                return local
            return local
        err = {}

        def run_a():
            sys.settrace(tracer)
            try:
                s._cleanup_handlers()
            except Exception as e:  # noqa
                err["a"] = f"{type(e).__name__}: {e}"
            finally:
                sys.settrace(None)
                paused.set()

        def run_b():
            try:
                s.add_receive_handler(new)
            except Exception as e:  # noqa
                err["b"] = f"{type(e).__name__}: {e}"
        ta = threading.Thread(target=run_a, daemon=True)
        ta.start()
        paused.wait(5)
        if seen["line"] is None:
            ta.join(5)
            break
        tb = threading.Thread(target=run_b, daemon=True)
        tb.start()
        tb.join(0.05)                       # still alive = blocked on the lock the clean-up holds
        resume.set()
        ta.join(5)
        tb.join(5)
        for tag in (b"K", b"G", b"N"):
            s.dispatch_recevied_data(tag, ("10.0.0.1", 10022))
        points += 1
        ctx.count("evaluations")
        got = {"kept_dispatched": keep.n, "finished_dispatched": gone.n, "new_dispatched": new.n, "errors": err}
        if err or (keep.n, gone.n, new.n) != (1, 0, 1):
            ctx.violation("cleanup-race:registration-lost" if new.n == 0 else "cleanup-race:wrong-handler-list",
                          {"kind": "cleanup-race", "pause_before_line_offset": seen["line"], "pause_index": k},
                          "after the clean-up and the concurrent registration: the unfinished handler and the NEW handler get their datagrams, the finished one does not",
                          got)
            break
        k += 1
    ctx.cov["cleanup_race_preemption_points"] = points


def run(ctx):
    st = translate.run(["ThreadedFacts", "SimChain", "TransferConsts", "Skeletons"])
    ctx.cov["translator"] = st
    for k, v in st.items():
        if v != "ok":
            ctx.obligation_broken(f"translate:{k}", v)
    ctx.lean_obligations("GeckoModel.Properties.C20")
    try:
        search_cleanup_race(ctx)
    except Exception as e:  # noqa
        ctx.obligation_broken("harness:cleanup-race", f"{type(e).__name__}: {e}")
    rng = ctx.rng
    lines, impl_ans = [], []
    featsets, allfeats = set(), {}
    with vloop.patch_time(_now):
        # ---- 1. generic engine scripts: corpus, then seeded boundary-aimed scripts
        scripts = 0
        for ops in CORPUS:
            rig, out = run_script_ops(ctx, ops)
            scripts += 1
            for op, ans in out:
                lines.append(op)
                impl_ans.append(ans)
                ctx.count("evaluations")
            featsets.add(tuple(sorted(rig.features)))
            for f in rig.features:
                allfeats[f] = allfeats.get(f, 0) + 1
        nscripts = 400 if ctx.quick else 20000
        for _ in range(nscripts):
            rig = Rig(ctx)
            out = gen_script(ctx, rng, rig, rng.randrange(18, 45 if ctx.quick else 90))
            scripts += 1
            for op, ans in out:
                lines.append(op)
                impl_ans.append(ans)
                ctx.count("evaluations")
                if op.startswith("iter"):
                    ctx.count("engine_iterations")
            featsets.add(tuple(sorted(rig.features)))
            for f in rig.features:
                allfeats[f] = allfeats.get(f, 0) + 1
            if scripts == len(CORPUS) + 1:
                ctx.sample({"script": [o for o, _ in out][:30], "last_state": out[-1][1][:300]})
        ctx.cov["scripts"] = scripts
        ctx.cov["script_features"] = allfeats
        # ---- 2. the handshake: real GeckoSpa vs real simulator handlers, seeded loss
        snaps = usable_snapshots()
        ctx.cov["snapshots_usable"] = len(snaps)
        nh = 30 if ctx.quick else 1500
        hs_out = {}
        for i in range(nh):
            if not snaps:
                ctx.obligation_broken("handshake:no-usable-snapshot", "no shipped snapshot has importable pack modules")
                break
            budget = rng.choice([0, 1, 2, 3, 10]) if i else 10
            within = rng.random() < 0.8
            inp = {"kind": "handshake", "snapshot": rng.choice(snaps) if i else snaps[0], "budget": budget, "timeout_s": rng.choice([1, 2, 4]),
                   "within": within, "plan": gen_plan(rng, budget, within), "seed": rng.randrange(1 << 30)}
            res = handshake_case(ctx, inp, lines, impl_ans)
            ctx.count("evaluations")
            ctx.count("handshakes")
            if res:
                hs_out[res["stage"]] = hs_out.get(res["stage"], 0) + 1
                ctx.count("handshake_first_match_checks", res["first_match_checks"])
                nlost = len(res["dropped"])
                featsets.add(("handshake", res["stage"], min(nlost, 6), budget))
                if i < 2:
                    ctx.sample({"handshake": {k: inp[k] for k in ("snapshot", "budget", "timeout_s", "plan")}, "events": ",".join(res["hev"])[:200],
                                "stage": res["stage"], "virtual_us": res["clock"], "client_datagrams": res["client_sent"]})
        ctx.cov["handshake_outcomes"] = hs_out
    # ---- 3. thorough: the engine's own thread with the real clock (a TEST - supporting evidence only, outside the proof tie)
    if not ctx.quick:
        try:
            ctx.cov["real_thread_test"] = real_thread_test(ctx)
            if ctx.cov["real_thread_test"]["problems"]:
                ctx.notes.append("real-thread TEST reported: " + "; ".join(ctx.cov["real_thread_test"]["problems"]))
        except Exception as e:  # noqa
            ctx.cov["real_thread_test"] = f"raised {type(e).__name__}: {e}"
    # ---- 4. the model on the same ops
    try:
        model = Driver("Driver/C20.lean").run(lines)
    except DriverFailure as e:
        ctx.obligation_broken("driver:C20", e)
        model = None
    if model is not None:
        nd = 0
        for i, (mo, im) in enumerate(zip(model, impl_ans)):
            if mo != im:
                nd += 1
                if nd <= 3:
                    ctx.obligation_broken("correspondence:engine-model-vs-implementation", {"op": lines[i][:300], "index": i, "model": mo[:400], "impl": im[:400]})
        ctx.cov["correspondence_ops"] = len(lines)
        ctx.cov["correspondence_disagreements"] = nd
    check_handshake_with_ping_thread(ctx)
    search_partial_overlap(ctx)
    ctx.cov["distinct_nontrivial"] = len([f for f in featsets if len(f) >= 2])
    ctx.cov["rule"] = ("generic scripts: 2-5 scripted handlers (random accept masks over 5 verbs so acceptors overlap, packet acceptors that re-dispatch, timeouts "
                       "0/15/20.001/50/100/250 ms, retries 0-3, on_retry_failed default/none/raising, reactions = act lists incl. raise), registration in random "
                       "order, then client calls and iterations whose clock advances are aimed, from the live engine state, at gap-since-last-send = period-2..+2 "
                       "and handler age = timeout-1..+2; executed through the real _thread_func; every op compared with the Lean driver. handshakes: real "
                       "GeckoSpa.start_connect vs real simulator handlers on a shipped snapshot, both engines stepped, per-attempt loss plan (request lost, "
                       "reply lost, final segment lost, inner segments lost) within (80%) or beyond the retry budget; event abstraction compared with the HS model. "
                       "evaluations = ops + handshakes. non-trivial = script exhibiting >= 2 of the tracked features (tie throttled, first passing gap, age = timeout "
                       "not fired, timeout fired, overlapping acceptors, swallowed exception, nested dispatch, failed send, retry exhausted, answered removed, engine died) "
                       "or a handshake; distinct by feature set / (outcome, datagrams lost, budget)")
    ctx.assumptions += ["engine iterations are atomic steps; client calls happen between them (self._lock serialises them in the code)",
                        "exact clock in whole microseconds; can_handle total; sendto does not raise",
                        "handshake: datagrams are genuine (real simulator bytes), only loss and the seeded small delivery delay vary"]


def search_partial_overlap(ctx, only=None):
    """first match when acceptance depends on MORE than the leading verb: three handlers whose accepted sets overlap only partly on
    datagrams that all begin with the same five bytes (by length, by a later byte, a catch-all), every registration order, every
    sequence of up to four datagrams - each datagram goes to the first registered handler that accepts THAT datagram, whatever the
    handlers took before (real GeckoUdpSocket.dispatch_recevied_data, no thread)"""
    import itertools
    from geckolib.driver import GeckoUdpSocket, GeckoUdpProtocolHandler

    class MockSock:
        def sendto(self, data, dest):
            pass
    preds = {"long": lambda b: len(b) >= 12, "even": lambda b: len(b) > 5 and b[5] % 2 == 0, "all": lambda b: True}
    dgs = [b"<PACKT>\x02tail-of-a-long-one", b"<PACKT>\x03tail-of-a-long-one", b"<PACKT>\x02", b"<PACKT>\x03", b"<PACK"]

    class H(GeckoUdpProtocolHandler):
        def __init__(self, name, log):
            super().__init__()
            self.name, self.log = name, log

        def can_handle(self, received_bytes, sender):
            return preds[self.name](received_bytes)

        def handle(self, received_bytes, sender):
            self.log.append(self.name)
    for order in itertools.permutations(sorted(preds)):
        for n in (1, 2, 3, 4):
            for seq in itertools.product(range(len(dgs)), repeat=n):
                case = [list(order), list(seq)]
                if only is not None and only != case:
                    continue
                sock = GeckoUdpSocket(socket=MockSock())
                log = []
                for name in order:
                    sock.add_receive_handler(H(name, log))
                want = []
                try:
                    for i in seq:
                        want.append(next((nm for nm in order if preds[nm](dgs[i])), None))
                        k = len(log)
                        sock.dispatch_recevied_data(dgs[i], ("10.0.0.1", 10022))
                        if len(log) == k:
                            log.append(None)
                except Exception as e:  # noqa
                    log.append(f"raised {type(e).__name__}: {e}")
                ctx.count("evaluations")
                if log != want:
                    ctx.hist("partial_overlap", "differs")
                    ctx.violation("first-match:partly-overlapping-acceptors", {"kind": "partial-overlap", "case": case},
                                  {"registered in this order": list(order), "datagrams": [dgs[i].decode("latin1") for i in seq], "taken by": want}, {"taken by": log})
                    return
    ctx.hist("partial_overlap", "all-sequences-first-match")


def check_handshake_with_ping_thread(ctx, only=None):
    """the blocking handshake with BOTH threads of the client stepped (the ping thread pings and calls refresh() once per ping period),
    under the library's idle and active timings (an async manager in the same process switches the shared timings), one datagram lost"""
    import bsessions
    from common import REPO
    snaps = [s for s in usable_snapshots()][:2 if ctx.tier == "quick" else 6]
    for f in snaps:
        for active in (False, True):
            for lose in ("none", "version", "first-segment", "last-segment"):
                case = [str(f).split("/")[-1], active, lose]
                if only is not None and only != case:
                    continue
                path = str(f) if "/" in str(f) else str(REPO / "tests" / "snapshots" / f)
                try:
                    r = bsessions.handshake_with_ping_thread(path, active, lose)
                except Exception as e:  # noqa
                    r = {"raised": f"{type(e).__name__}: {e}"}
                ctx.count("evaluations")
                ctx.hist("handshake_with_ping_thread", f"{'active' if active else 'idle'}:{lose}")
                if not r.get("connected") or r.get("differs_at") or r.get("block_len") != 1024:
                    ctx.violation(f"handshake-with-ping-thread:{lose}", {"kind": "handshake-with-ping-thread", "case": case},
                                  "one attempt per step gets through: the client connects with a status block identical to the spa's", r)
                    return


def replay(inp):
    from common import Ctx
    ctx = Ctx("C20", "quick", 0)
    if inp.get("kind") == "partial-overlap":
        search_partial_overlap(ctx, only=inp["case"])
        return bool(ctx.violations), ctx.violations[0]["observed"] if ctx.violations else "first match"
    if inp.get("kind") == "handshake-with-ping-thread":
        check_handshake_with_ping_thread(ctx, only=inp["case"])
        return bool(ctx.violations), ctx.violations[0]["observed"] if ctx.violations else "connected, identical block"
    if inp.get("kind") == "cleanup-race":
        search_cleanup_race(ctx, only=inp["pause_index"])
        return bool(ctx.violations), ctx.violations[0]["observed"] if ctx.violations else "registered"
    with vloop.patch_time(_now):
        if inp.get("kind") == "handshake":
            res = handshake_case(ctx, inp, [], [])
            obs = ctx.violations[0]["observed"] if ctx.violations else (f"stage={res['stage']}" if res else "raised")
            return bool(ctx.violations), obs
        rig, out = run_script_ops(ctx, inp["ops"])
    return bool(ctx.violations), (ctx.violations[0]["key"] + ": " + str(ctx.violations[0]["observed"])) if ctx.violations else out[-1][1][:300]
