"""C07 - dispatch: each datagram consumed once, only by a capable, addressed consumer."""
import asyncio
import re

import rig
import translate
import vloop
from common import Driver, DriverFailure, hx

LEVEL = "proof"
MANIFEST = dict(
    text="Lean 4 invariants over a transition system of the receive queue, proved for EVERY reachable state (induction over action sequences): "
         "FIFO conservation pops ++ queue = puts with distinct arrival numbers (each datagram leaves exactly once, never both taken and discarded), every pop "
         "is by a consumer that accepts the verb or by the unhandled consumer, the mark flag always designates the unchanged head (a discard happens only after a "
         "full polling interval unclaimed), mis-addressed packets re-queue nothing; and, when the event loop does not stall, no datagram is at the head for more than "
         "3 polling intervals (deadline invariant over the unhandled consumer's program counter). Capable consumers and request waiters are adversarially timed in the "
         "model, which covers all wake-up orders, jitter and any number of waiters. Tie = trace validation: the real task set started by GeckoAsyncSpa._connect on the "
         "virtual-time loop, queue instrumented from outside, arrival scripts of known / unknown / unsolicited / mis-addressed / malformed datagrams; every observed "
         "put / pop / mark / unhandled-consumer step must be enabled in the model and have the model's outcome."
         " Since session 3: the connection's packet consumer is also modelled at the byte level as the long-lived object it is (Model/PacketConsumer.lean over C04's regex model): consume_eq_spec (over any history and whatever the object held before, what is re-queued is exactly the DATAS of the frames that parse and carry this connection's address and identifier pair), misaddressed_frame_no_effect / addressed_frame_requeued for arbitrary payloads; tied by feeding histories to the real handler + the real _async_on_packet exactly as consume() does, plus a re-queue conservation monitor on the whole task set. Session 4: the client event handler really suspends (0/250/0/120 ms by round) so peek and pop are separated by other consumers turns; a consumer task that ends with an exception is a violation. The atomic consumer step of the model is itself proved: the suspension skeletons of the three consuming coroutines are regenerated from the source, a static analysis proved sound for every trace (scan_sound) shows no suspension point between looking at the head and popping it, and atomic_sections lifts that to every schedule of the event loop (peek_pop_atomic_in_every_schedule). The packet-consumer correspondence observes the real protocol queue; a backlog run of 150 datagrams with a conservation check at the end. Session 5: unwrapper_overwrites_its_fields_for_every_datagram (+ _traces) over the regenerated skeleton of the unwrapper's handle. Round 14: an abandoned connection attempt ending while a second connection of the same manager is live - the live connection keeps consuming. Round 15: datagrams coalescing several <PACKT> elements, each addressed to this connection or to somebody else - no queue entry begins with a foreign element's message.",
    note="partial: the head-of-line bound is proved under the fairness hypothesis 'the unhandled consumer runs when its 100 ms timer is due' (no event-loop stall; "
         "real timer skew is outside); the safety clauses need no such hypothesis. Trusted: Lean kernel; asyncio semantics (no pre-emption between awaits); the harness "
         "instrumentation (monkeypatched AsyncPeekableQueue recording caller frames). A consumer whose async_handle raises on a malformed body dies (Python task semantics); "
         "its verb is thereafter discarded by the unhandled consumer, which the property allows.",
    technique="Lean 4 inductive invariants over a nondeterministic transition system + trace validation of the real consumer task set",
    design="5/C07")

STD = None


def handler_classes():
    from geckolib.driver import protocol as P
    import geckolib.driver as D
    names = ["GeckoPacketProtocolHandler", "GeckoAsyncPartialStatusBlockProtocolHandler", "GeckoRFErrProtocolHandler",
             "GeckoWatercareErrorHandler", "GeckoUnhandledProtocolHandler", "GeckoPingProtocolHandler", "GeckoVersionProtocolHandler",
             "GeckoGetChannelProtocolHandler", "GeckoConfigFileProtocolHandler", "GeckoStatusBlockProtocolHandler",
             "GeckoPackCommandProtocolHandler", "GeckoWatercareProtocolHandler", "GeckoRemindersProtocolHandler"]
    return {n: getattr(D, n) for n in names}


def fresh(cls):
    n = cls.__name__
    if n == "GeckoAsyncPartialStatusBlockProtocolHandler":
        return cls(None)
    if n == "GeckoHelloProtocolHandler":
        return cls(b"1")
    return cls()


SENDER = ("10.0.0.1", 10022)
SPA_ID = b"SPA01:02:03:04:05:06"
CLIENT = b"IOSclient"


def gen_arrivals(rng, n, horizon_ms):
    """[(ms, bytes, class-label)]"""
    good = lambda c: rig.frame(SPA_ID, CLIENT, c)
    pool = [
        ("inner-statp", lambda: b"STATP\x01" + bytes([0, rng.randrange(200), rng.randrange(256), rng.randrange(256)])),
        ("framed-statp", lambda: good(b"STATP\x01" + bytes([0, rng.randrange(200), rng.randrange(256), rng.randrange(256)]))),
        ("framed-ping-reply", lambda: good(b"APING\x00")),
        ("inner-ping-reply", lambda: b"APING\x00"),
        ("framed-version-reply", lambda: good(b"SVERS" + bytes([0, 1, 2, 3, 0, 4, 5, 6]))),
        ("rferr", lambda: b"RFERR"),
        ("framed-rferr", lambda: good(b"RFERR")),
        ("wcerr", lambda: b"WCERR"),
        ("unknown", lambda: b"ZZTOP" + bytes(rng.randrange(256) for _ in range(rng.randrange(0, 6)))),
        ("unknown-empty", lambda: b""),
        ("unsolicited-chcur", lambda: b"CHCUR\x0a\x21"),
        ("unsolicited-files", lambda: good(b"FILES,inYT_C09.xml,inYT_S09.xml")),
        ("misaddressed-src", lambda: rig.frame(b"SPA99:99:99:99:99:99", CLIENT, b"STATP\x01\x00\x10\xaa\xbb")),
        ("misaddressed-dst", lambda: rig.frame(SPA_ID, b"IOSsomeoneelse", b"STATP\x01\x00\x10\xaa\xbb")),
        ("malformed-frame", lambda: b"<PACKT>garbage without tags</PACKT>"),
        ("malformed-inner-foreign", lambda: b"<PACKT><SRCCN>SPA99:99:99:99:99:99</SRCCN><DESCN>IOSsomeoneelse</DESCN>STATP no datas tag</PACKT>"),
        ("malformed-inner-ours", lambda: b"<PACKT><SRCCN>" + SPA_ID + b"</SRCCN><DESCN>" + CLIENT + b"</DESCN><DATAS>APING\x00</PACKT>"),
        ("malformed-frame-open", lambda: b"<PACKT><SRCCN>x</SRCCN>"),
        ("statq-stray", lambda: b"STATQ\x05"),
        ("packs-stray", lambda: good(b"PACKS")),
    ]
    out = []
    t = 0
    while len(out) < n:
        gap = rng.choice([0, 0, 1, 7, 30, 50, 99, 100, 101, 150, 250, 400, 900])
        t += gap
        if t > horizon_ms:
            break
        lab, mk = rng.choice(pool)
        burst = rng.choice([1, 1, 1, 2, 4])
        for _ in range(burst):
            out.append((t, mk(), lab))
    return out


def run_connection(arrivals, seed, shuffle, jitter, horizon_s, misaddr_from=None, slow_client_ms=0):
    """start the REAL consumer task set (GeckoAsyncSpa._connect on a fake endpoint with nobody answering requests), inject arrivals"""
    from geckolib.async_spa import GeckoAsyncSpa
    from geckolib.async_tasks import AsyncTasks
    res = {}

    async def body(loop):
        tr = rig.Trace(loop)
        events = []

        async def on_event(ev, **kw):
            events.append((tr.ms(), str(ev)))
            if slow_client_ms and ("RF_ERROR" in str(ev) or "WATER_CARE_ERROR" in str(ev)):
                await asyncio.sleep(slow_client_ms / 1000.0)     # a client whose handler takes its time (the RFErr / WCErr consumers await it)
        with rig.instrument(tr):
            taskman = AsyncTasks()
            spa = GeckoAsyncSpa(CLIENT, rig.Desc(), taskman, on_event)
            ct = asyncio.ensure_future(spa.connect())
            base = 50   # arrivals start after the endpoint exists

            async def feeder():
                last = 0
                for ms, data, lab in arrivals:
                    await asyncio.sleep(max(0, (ms - last)) / 1000.0)
                    last = ms
                    if spa._protocol is not None:
                        blk0 = spa.struct.status_block
                        spa._protocol.datagram_received(data, SENDER)
            await asyncio.sleep(base / 1000.0)
            ft = asyncio.ensure_future(feeder())
            await asyncio.sleep(horizon_s)
            res["block"] = spa.struct.status_block
            res["queued_at_end"] = spa._protocol.queue.qsize() if spa._protocol else -1
            res["dead_consumers"] = sorted(f"{t_.get_name()}: {type(t_.exception()).__name__}" for t_ in taskman._tasks
                                           if t_.get_name().startswith("SPA:") and t_.done() and not t_.cancelled() and t_.exception() is not None)
            for t in [ct, ft]:
                t.cancel()
            taskman.cancel_key_tasks("SPA")
            await asyncio.sleep(0)
        res["trace"] = tr
        res["events"] = events
    vloop.run_virtual(body, seed=seed, shuffle=shuffle, jitter=jitter)
    return res


def verb_class(data, table):
    key = (bytes(data[:5]), data.startswith(b"<PACKT>") and data.endswith(b"</PACKT>"))
    if key not in table:
        table[key] = (len(table) + 1, bytes(data))
    return table[key][0]


def to_lines(tr, fair, classes, vtable, ktable):
    """trace -> validator lines; returns (lines, meta)"""
    body = []
    now = 0
    seen_k = set()
    for (ms, kind, who, payload) in tr.ev:
        if ms != now:
            body.append(f"t {ms}")
            now = ms
        if kind == "put":
            body.append(f"put {payload[0]} {verb_class(payload[1], vtable)}")
        elif kind == "pop":
            if type(who).__name__ == "GeckoUnhandledProtocolHandler":
                continue      # reported through its is_marked check
            k = ktable.setdefault(type(who).__name__, len(ktable) + 1)
            seen_k.add(type(who).__name__)
            body.append(f"pop {k} {payload[0]}")
        elif kind == "mark":
            body.append(f"usecond mark:{payload[0]}")
        elif kind == "u-head-none":
            body.append("usecond none")
        elif kind == "u-is-marked":
            if payload:
                # the pop that follows is the outcome
                nxt = [e for e in tr.ev if e[1] == "pop" and type(e[2]).__name__ == "GeckoUnhandledProtocolHandler" and e[0] == ms]
                did = None
                for e in tr.ev[tr.ev.index((ms, kind, who, payload)):]:
                    if e[1] == "pop" and type(e[2]).__name__ == "GeckoUnhandledProtocolHandler":
                        did = e[3][0]
                        break
                body.append(f"ufirst pop:{did}")
            else:
                body.append("ufirst none")
    head = ["reset", f"mode {'fair' if fair else 'unfair'}"]
    for cname, k in ktable.items():
        h = fresh(classes[cname])
        for (prefix, wf), (v, sample) in vtable.items():
            try:
                ok = h.can_handle(sample, SENDER)
            except Exception:  # noqa
                ok = False
            if ok:
                head.append(f"acc {k} {v}")
    return head + body + ["end"]


def monitors(ctx, tr, res, classes, fair, inp):
    """the property read directly on the implementation's trace"""
    popped = {}
    put_time = {}
    head_since = None
    queue = []
    max_age = 0
    for (ms, kind, who, payload) in tr.ev:
        if queue and head_since is not None:
            max_age = max(max_age, ms - head_since)
        if kind == "put":
            put_time[payload[0]] = ms
            if not queue:
                head_since = ms
            queue.append(payload[0])
        elif kind == "pop":
            did, data, fn = payload
            cname = type(who).__name__ if who is not None else "?"
            if did in popped:
                ctx.violation("double-pop", inp, "each datagram popped once", f"datagram {did} popped by {popped[did]} and {cname}")
            popped[did] = cname
            if cname != "GeckoUnhandledProtocolHandler":
                try:
                    ok = fresh(classes[cname]).can_handle(data, SENDER) if cname in classes else who.can_handle(data, SENDER)
                except Exception:  # noqa
                    ok = False
                if not ok:
                    ctx.violation(f"incapable-pop:{cname}", dict(inp, datagram=hx(data)), "popped only by a consumer that accepts the verb", cname)
            if queue and queue[0] == did:
                queue.pop(0)
            elif did in queue:
                ctx.violation("non-head-pop", inp, "pops take the head", f"datagram {did} popped while {queue[0]} was head")
                queue.remove(did)
            head_since = ms if queue else None
    # conservation at the end of the run: a datagram that was put and never popped is still IN the queue (none vanishes on the side)
    left = [d for d in put_time if d not in popped]
    if res.get("queued_at_end", -1) >= 0 and len(left) != res["queued_at_end"]:
        ctx.violation("vanished-from-queue", inp, "every datagram received is either popped by somebody or still queued",
                      {"received": len(put_time), "popped": len(popped), "still_queued": res["queued_at_end"], "unaccounted": len(left) - res["queued_at_end"]})
    if fair and max_age > 300:
        ctx.violation("head-age", inp, "no datagram at the head for more than 3 polling intervals (300 ms)", f"{max_age} ms")
    return max_age, len(popped)


def packet_consumer_histories(ctx):
    """correspondence + direct oracle for the LONG-LIVED packet consumer at the byte level: one real
    GeckoPacketProtocolHandler(async_on_handled=spa._async_on_packet) of a real GeckoAsyncSpa is fed histories of datagrams
    exactly the way consume() feeds it (can_handle / async_handle / async_handled); what it re-queues is compared with
    Model/PacketConsumer.lean on the same bytes and with the specification computed independently here."""
    from geckolib.async_spa import GeckoAsyncSpa
    from geckolib.async_tasks import AsyncTasks
    from geckolib.driver import GeckoPacketProtocolHandler
    rng = ctx.rng
    desc = rig.Desc()
    ip, port = desc.destination
    spa_id, cli = desc.identifier, CLIENT

    def mk(rng):
        src = rng.choice([spa_id, spa_id, spa_id, b"SPA99:99:99:99:99:99", b"", spa_id + b"x", spa_id[:-1]])
        dst = rng.choice([cli, cli, cli, b"IOSsomeoneelse", b"", cli.lower()])
        pay = rng.choice([b"APING\x00", b"RFERR", b"STATP\x01\x00\x10\xaa\xbb", b"", b"x</DATAS>y", b"<DATAS>", b"a</DESCN><DATAS>b", b"\n\x00\xff",
                          b"STATV\x00\x01\x03ab\n", b"CHCUR\x05\r", b"STATP\x01\x00\x10\xaa\x0a", b"\r\n", b" x \t",
                          bytes(rng.randrange(256) for _ in range(rng.randrange(0, 12)))])
        kind = rng.random()
        if kind < 0.55:
            d = rig.frame(src, dst, pay)
        elif kind < 0.65:
            d = b"<PACKT>" + pay + b"</PACKT>"                                   # outer frame, no inner parts
        elif kind < 0.72:
            d = b"<PACKT><SRCCN>" + src + b"</SRCCN><DESCN>" + dst + b"</DESCN>" + pay + b"</PACKT>"      # no DATAS
        elif kind < 0.78:
            d = b"<PACKT><SRCCN>" + src + b"</SRCCN><DATAS>" + pay + b"</DATAS></PACKT>"                  # no DESCN
        elif kind < 0.84:
            d = rig.frame(src, dst, pay)[:-1]                                       # not claimed: bad close tag
        elif kind < 0.9:
            d = pay                                                                 # bare inner datagram: not claimed
        else:
            d = b"junk" + rig.frame(src, dst, pay) if rng.random() < 0.5 else rig.frame(src, dst, pay) + b"</PACKT>"
        sender = rng.choice([(ip, port)] * 6 + [("10.9.9.9", port), (ip, port + 1)])
        return d, sender

    async def body(loop):
        out = []
        for h_i in range(40 if ctx.quick else 600):
            recorded = []
            # the REAL protocol object receives what the packet consumer re-queues (its own datagram_received, its own queue): what is
            # observed is what a verb consumer would find at the head of the receive queue
            from geckolib.driver.async_udp_protocol import GeckoAsyncUdpProtocol
            proto = GeckoAsyncUdpProtocol(None, desc.destination)
            proto.connection_made(vloop.FakeTransport(loop, proto))

            def drain():
                while proto.queue.head is not None:
                    recorded.append(proto.queue.head[0])
                    proto.queue.pop()

            async def on_event(*a, **k):
                pass
            spa = GeckoAsyncSpa(CLIENT, desc, AsyncTasks(), on_event)
            spa._protocol = proto
            handler = GeckoPacketProtocolHandler(async_on_handled=spa._async_on_packet)
            hist = [mk(rng) for _ in range(rng.randint(1, 9))]
            steps = []
            for d, sender in hist:
                n0 = len(recorded)
                try:
                    if not handler.can_handle(d, sender):
                        ans = "no-claim"
                    else:
                        await handler.async_handle(d, sender)
                        await handler.async_handled(sender)
                        drain()
                        new = recorded[n0:]
                        ans = "drop" if not new else ("requeue " + ("none" if new[0] is None else hx(new[0])) + (" +%d" % (len(new) - 1) if len(new) > 1 else ""))
                except Exception as e:  # noqa
                    ans = f"raised {type(e).__name__}"
                steps.append((d, sender, ans))
            out.append(steps)
        return out
    hists = vloop.run_virtual(body, seed=1)
    lines, impl = [], []
    n_rq = 0
    for steps in hists:
        lines.append(f"pc-new {hx(ip.encode())} {port} {hx(spa_id)} {hx(cli)}")
        impl.append("ok")
        for k, (d, sender, ans) in enumerate(steps):
            lines.append(f"pc-dg {hx(d)} {hx(sender[0].encode())} {sender[1]}")
            impl.append(ans)
            ctx.count("evaluations")
            # direct oracle (independent of the model): claimed iff outer tags; re-queued iff the inner parts parse and carry
            # exactly this connection's address and identifier pair; the content is the DATAS text
            m = re.search(rb"<SRCCN>(.*?)</SRCCN><DESCN>(.*?)</DESCN><DATAS>(.*)</DATAS>", d[7:-8], re.DOTALL)
            claimed = d.startswith(b"<PACKT>") and d.endswith(b"</PACKT>")
            if not claimed:
                want = "no-claim"
            elif m and sender == (ip, port) and m.group(1) == spa_id and m.group(2) == cli:
                want = "requeue " + hx(m.group(3))
                n_rq += 1
            else:
                want = "drop"
            if ans != want:
                ctx.violation("packet-consumer:" + ("replay" if ans.startswith("requeue") and want == "drop" else "wrong-effect"),
                              {"kind": "packet-consumer", "history": [[hx(a), list(b)] for a, b, _ in steps[:k + 1]]}, want, ans)
                break
    ctx.cov["packet_consumer_histories"] = len(hists)
    ctx.cov["packet_consumer_requeues"] = n_rq
    try:
        model = Driver("Driver/C07.lean").run(lines)
    except DriverFailure as e:
        ctx.obligation_broken("driver:C07:packet-consumer", e)
        return
    for l, mo, im in zip(lines, model, impl):
        if mo != im:
            ctx.obligation_broken("correspondence:packet-consumer-model-vs-implementation", {"op": l[:200], "model": mo[:120], "impl": im[:120]})
            break
    ctx.sample({"packet_consumer": [[l[:80], a] for l, a in zip(lines[:4], impl[:4])]})


def explore_overlapping_attempts():
    """the consumers of a LIVE connection while an ABANDONED attempt of the same manager ends: the sequence pump's connection attempt
    is parked in the client's handler between two handshake steps, the user resets and connects again from another task (a second,
    complete connection), then the parked attempt is released and fails. Afterwards the live connection must still take everything off
    its queue: a change the spa reports is applied, a datagram nobody accepts is discarded, pings go on being answered."""
    import fakenet
    import rig as _rig
    from geckolib import GeckoAsyncSpaMan
    from props import c10
    res = {}

    async def body(loop):
        gate = asyncio.Event()
        parked = {"n": 0}

        class Man(GeckoAsyncSpaMan):
            async def handle_event(self, event, **kw):
                if "CONNECTION_GOT_FIRMWARE_VERSION" in str(event) and parked["n"] == 0:
                    parked["n"] = 1
                    await gate.wait()
        sim = fakenet.make_sim(c10.SNAP)
        net = fakenet.Network(loop, sim, phases=[], seed=1)
        loop.network = net
        m = Man("uuid-1", spa_identifier=c10.IDENT, spa_address="10.0.0.9", spa_name="Spa")
        await m.__aenter__()
        for _ in range(400):
            await asyncio.sleep(0.05)
            if parked["n"]:
                break
        res["parked"] = bool(parked["n"])
        await m.async_reset()
        try:
            await asyncio.wait_for(m.async_connect(c10.IDENT, "10.0.0.9"), 300)
        except Exception as e:  # noqa
            res["second_connect"] = f"{type(e).__name__}: {e}"
        res["connected"] = m.facade is not None
        if m.facade is None:
            gate.set()
            await m.__aexit__(None, None, None)
            return
        spa = m.facade.spa
        gate.set()                                  # the abandoned attempt goes on, finds its protocol gone, and fails
        await asyncio.sleep(3.0)
        # the live connection: a reported change, an unknown datagram, pings
        tag = next(t for t, a in sim.structure.accessors.items() if a.read_write is not None and a.type == "Enum" and a.items
                   and len([x for x in a.items if x]) >= 2 and t.startswith("Ud") and t in spa.accessors)
        sa = sim.structure.accessors[tag]
        labs = [x for x in sa.items if x]
        new = labs[0] if sa.value != labs[0] else labs[1]
        import builtins
        real_print = builtins.print
        builtins.print = lambda *a, **k: None
        sim._send_structure_change = True
        try:
            sa.value = new
        finally:
            sim._send_structure_change = False
            builtins.print = real_print
        queued = list(sim._socket._send_handlers)
        sim._socket._send_handlers.clear()
        live = [x for x in net.transports if not x.closed]
        for x in live[-1:]:
            x.deliver(b"<WHATS>this</WHATS>", fakenet.SIM_ADDR)
            for hdl, _d in queued:
                net.push(x, hdl.send_bytes)
        await asyncio.sleep(3.0)
        res["change_applied"] = str(spa.accessors[tag].value) == str(new)
        await asyncio.sleep(3 * 70.0)
        res["answering_pings"] = spa.is_responding_to_pings
        res["state"] = str(m.spa_state).split(".")[-1]
        res["spa_tasks"] = sorted(t.get_name() for t in asyncio.all_tasks() if t.get_name().startswith("SPA:") and not t.done())
        await m.__aexit__(None, None, None)
    vloop.run_virtual(body, stable=True)
    return res


def check_overlapping_attempts(ctx):
    r = explore_overlapping_attempts()
    ctx.count("evaluations")
    ctx.cov["overlapping_attempts"] = {k: r.get(k) for k in ("parked", "connected", "change_applied", "answering_pings", "state")} | {"spa_tasks": len(r.get("spa_tasks", []))}
    if not r.get("parked") or not r.get("connected"):
        ctx.obligation_broken("harness:overlapping-attempts", {k: r.get(k) for k in ("parked", "connected", "second_connect")})
    elif not r.get("change_applied") or not r.get("answering_pings") or len(r.get("spa_tasks", [])) < 7:
        ctx.violation("overlapping-attempts:live-connection-stops-consuming", {"kind": "overlapping-attempts"},
                      "the live connection still applies a reported change, answers pings and runs its seven tasks after the abandoned attempt has ended",
                      {k: r.get(k) for k in ("change_applied", "answering_pings", "state", "spa_tasks")})


def run(ctx):
    st = translate.run(["Skeletons", "WireFormats", "WirePins"])
    ctx.cov["translator"] = st
    for k, v in st.items():
        if v != "ok":
            ctx.obligation_broken(f"translate:{k}", v)
    ctx.lean_obligations("GeckoModel.Properties.C07")
    packet_consumer_histories(ctx)
    try:
        check_overlapping_attempts(ctx)
        check_coalesced_datagrams(ctx)
    except Exception as e:  # noqa
        ctx.obligation_broken("harness:overlapping-attempts", f"{type(e).__name__}: {e}")
    rng = ctx.rng
    classes = handler_classes()
    n_runs = 6 if ctx.quick else 60
    all_lines, expected = [], []
    nontrivial = set()
    total_dgrams = 0
    for r in range(n_runs + 1):
        fair = r % 3 != 2            # every third run uses timer jitter (= stalls): safety clauses only
        seed = rng.randrange(1 << 30)
        arrivals = gen_arrivals(rng, 60 if ctx.quick else 120, 9000)
        slow = [0, 250, 0, 120][r % 4]
        horizon = 11.0
        if r == n_runs:
            # one run with a BACKLOG: 150 datagrams of every class arrive within a few milliseconds (a chatty spa after a stall of the
            # client); they leave one per polling interval, so the run lasts long enough to drain them
            burst = gen_arrivals(rng, 400, 10 ** 9)
            arrivals = [(2000 + (k // 50), d, lab) for k, (_, d, lab) in enumerate(burst[:150])]
            fair, slow, horizon = True, 0, 40.0
        inp = {"seed": seed, "fair": fair, "arrivals": [(ms, hx(d), lab) for ms, d, lab in arrivals][:200]}
        if slow:
            inp["slow_client_ms"] = slow
        try:
            res = run_connection(arrivals, seed, shuffle=True, jitter=0.0 if fair else 0.03, horizon_s=horizon, slow_client_ms=slow)
        except Exception as e:  # noqa
            ctx.violation("connection-raised", inp, "the connection task set runs", f"{type(e).__name__}: {e}")
            continue
        tr = res["trace"]
        vtable, ktable = {}, {}
        lines = to_lines(tr, fair, classes, vtable, ktable)
        all_lines += lines
        max_age, npop = monitors(ctx, tr, res, classes, fair, inp)
        total_dgrams += len(tr.puts)
        ctx.count("evaluations", len(tr.ev))
        ctx.hist("runs", "fair" if fair else "jittered")
        for _, d, lab in arrivals:
            ctx.hist("arrival_kinds", lab)
        for e in tr.ev:
            if e[1] == "pop":
                ctx.hist("popped_by", type(e[2]).__name__)
                nontrivial.add((type(e[2]).__name__, bytes(e[3][1][:5])))
        # mis-addressed packets must leave the client's block alone: every STATP in this script that is applied comes from an addressed source
        want = bytearray(1024)
        for ms, d, lab in arrivals:
            body = None
            if lab == "inner-statp":
                body = d
            elif lab == "framed-statp":
                body = d[d.index(b"<DATAS>") + 7:d.index(b"</DATAS>")]
            if body is not None:
                pos = int.from_bytes(body[6:8], "big")
                want[pos:pos + 2] = body[8:10]
        if res["block"] != bytes(want) and res["queued_at_end"] == 0:
            # only a violation if explained by a mis-addressed packet having had an effect: the mis-addressed ones write position 0x10
            if res["block"][0x10:0x12] == b"\xaa\xbb":
                ctx.violation("misaddressed-effect", inp, "mis-addressed packets have no effect on the client's block", "block changed at 0x10")
        # (a BARE `STATP..` datagram - never on the real wire, where it travels framed - makes the partial-update consumer build its
        #  acknowledgement from a 2-tuple sender and die with IndexError: outside this property's traffic, noted in DESIGN.md)
        bare_statp = any(lab == "inner-statp" for _, _, lab in arrivals)
        dead = [d for d in res.get("dead_consumers", []) if not (bare_statp and d.startswith("SPA:Partial status block handler: IndexError"))]
        if dead:
            ctx.violation("consumer-died:" + dead[0].split(": ")[1], inp,
                          "every consumer task of the connection survives well-formed traffic", dead)
        # conservation of re-queued content: the packet consumer re-queues (put with the 4-tuple parms) exactly the DATAS of each
        # well-formed frame addressed from this spa to this client, once each, in arrival order - nothing for any other datagram
        exp_rq = []
        for ms, d, lab in arrivals:
            m = re.fullmatch(rb"<PACKT><SRCCN>(.*?)</SRCCN><DESCN>(.*?)</DESCN><DATAS>(.*)</DATAS></PACKT>", d, re.DOTALL)
            if m and m.group(1) == SPA_ID and m.group(2) == CLIENT:
                exp_rq.append(m.group(3))
        got_rq = [e[3][1] for e in tr.ev if e[1] == "put" and isinstance(e[3][2], tuple) and len(e[3][2]) == 4]
        ctx.cov["requeued_packets_checked"] = ctx.cov.get("requeued_packets_checked", 0) + len(got_rq)
        # (a frame may also be discarded by the unhandled consumer - the property allows that - so: an in-order SUBSEQUENCE)
        it_, k = iter(exp_rq), None
        for i, g in enumerate(got_rq):
            if not any(g == e for e in it_):
                k = i
                break
        if k is not None:
            ctx.violation("requeue-not-conserved", inp,
                          "the packet consumer re-queues only the content of addressed well-formed frames, each at most once, in arrival order",
                          {"requeued": len(got_rq), "frames_addressed_to_us": len(exp_rq), "unexplained_requeue_index": k,
                           "content": hx(got_rq[k]) if got_rq[k] is not None else None})
        ctx.cov["max_head_age_ms_observed"] = max(ctx.cov.get("max_head_age_ms_observed", 0), max_age if fair else 0)
        if r == 0:
            ctx.sample({"validator_lines": lines[:25]})
    try:
        out = Driver("Driver/C07.lean").run(all_lines)
    except DriverFailure as e:
        ctx.obligation_broken("driver:C07", e)
        out = None
    if out is not None:
        rej = [(i, o) for i, o in enumerate(out) if o.startswith("rejected") or o == "bad-op"]
        ctx.cov["traces_validated_against_impl"] = n_runs - len({all_lines[:i].count("reset") for i, _ in rej})
        ctx.cov["trace_steps_accepted"] = sum(1 for o in out if o == "ok")
        for i, o in rej[:3]:
            ctx.obligation_broken("correspondence:dispatch-trace-not-accepted-by-model", {"line": all_lines[i], "verdict": o, "context": all_lines[max(0, i - 6):i + 1]})
        ends = [o for o in out if o.startswith("end")]
        ctx.sample({"validator_summary": ends[:3]})
    ctx.cov["datagrams"] = total_dgrams
    ctx.cov["distinct_nontrivial"] = len(nontrivial)
    ctx.cov["rule"] = ("each run = the real task set of one connection (5 consumers + ping loop + refresh loop + the handshake's request waiter) on the virtual loop with a seeded "
                       "shuffle of ready callbacks, fed a seeded script of arrivals (known inner verbs, framed packets, replies nobody asked for, unknown verbs, mis-addressed and "
                       "malformed frames, bursts, gaps around the 100 ms poll). evaluations = recorded queue events; distinct non-trivial = distinct (popping handler class, verb) pairs")
    ctx.assumptions += ["asyncio runs one task step at a time; equal-time callbacks are shuffled by the seeded scheduler knob",
                        "runs with timer jitter model event-loop stalls and are validated in the model's unfair mode (safety clauses only)"]


def check_coalesced_datagrams(ctx, only=None):
    """one datagram holding SEVERAL <PACKT> elements (a relay or a later firmware may coalesce them), each addressed to this connection
    or to somebody else: whatever the client makes of such a datagram, content of an element that is NOT addressed to this connection's
    identifier pair never reaches its consumers (real protocol object, packet handler and `_async_on_packet`)"""
    import itertools
    from props import c04
    p2, p3 = b"IOSmine-0001", b"SPA01:02:03:04:05:06"
    others = {"o": (p2, p3), "f": (b"IOSother-9999", p3), "s": (p2, b"SPAff:ff:ff:ff:ff:ff")}

    def element(who, k):
        a, b = others[who]
        return b"<PACKT><SRCCN>" + b + b"</SRCCN><DESCN>" + a + b"</DESCN><DATAS>STATP\x01\x00" + bytes([0x10 + k, 0x60 + k, ord(who)]) + b"</DATAS></PACKT>"
    for n in (2, 3):
        for combo in itertools.product("ofs", repeat=n):
            if only is not None and list(combo) != only:
                continue
            dg = b"".join(element(w, k) for k, w in enumerate(combo))
            try:
                got = c04.receive_path(dg, p2, p3)
            except Exception as e:  # noqa
                got = [f"raised {type(e).__name__}: {e}".encode()]
            ctx.count("evaluations")
            ctx.hist("coalesced_datagrams", "".join(combo))
            # (the unchanged client takes the datagram for ONE packet: first source, content up to the last closing tag - its consumer
            # reads the leading message and ignores the rest; what must not happen is a queue entry that BEGINS with a foreign element's message)
            mine = [b"STATP\x01\x00" + bytes([0x10 + k, 0x60 + k, ord(w)]) for k, w in enumerate(combo) if w == "o"]
            foreign = [x for x in got if not (isinstance(x, bytes) and any(x.startswith(m) for m in mine))]
            if foreign:
                ctx.violation("coalesced-datagram:foreign-content-consumed", {"kind": "coalesced", "elements": list(combo)},
                              "only content addressed to this connection's identifier pair is queued for its consumers",
                              {"queued": [x.decode("latin1") for x in got]})
                return


def replay(inp):
    if inp.get("kind") == "coalesced":
        from common import Ctx
        c = Ctx("C07", "quick", 0)
        check_coalesced_datagrams(c, only=inp["elements"])
        return bool(c.violations), c.violations[0]["observed"] if c.violations else "nothing foreign queued"
    if inp.get("kind") == "overlapping-attempts":
        from common import Ctx
        c = Ctx("C07", "quick", 0)
        check_overlapping_attempts(c)
        return bool(c.violations), c.violations[0]["observed"] if c.violations else "the live connection keeps consuming"
    from common import Ctx
    ctx = Ctx("C07", "quick", 0)
    if inp.get("kind") == "packet-consumer":
        from geckolib.async_spa import GeckoAsyncSpa
        from geckolib.async_tasks import AsyncTasks
        from geckolib.driver import GeckoPacketProtocolHandler
        desc = rig.Desc()

        async def body(loop):
            recorded = []
            from geckolib.driver.async_udp_protocol import GeckoAsyncUdpProtocol
            proto = GeckoAsyncUdpProtocol(None, desc.destination)
            proto.connection_made(vloop.FakeTransport(loop, proto))

            async def on_event(*a, **k):
                pass
            spa = GeckoAsyncSpa(CLIENT, desc, AsyncTasks(), on_event)
            spa._protocol = proto
            h = GeckoPacketProtocolHandler(async_on_handled=spa._async_on_packet)
            last = None
            for dh, sender in inp["history"]:
                d = bytes.fromhex(dh) if dh != "-" else b""
                n0 = len(recorded)
                if h.can_handle(d, tuple(sender)):
                    await h.async_handle(d, tuple(sender))
                    await h.async_handled(tuple(sender))
                    while proto.queue.head is not None:
                        recorded.append(proto.queue.head[0])
                        proto.queue.pop()
                last = (d, tuple(sender), recorded[n0:])
            return last
        d, sender, new = vloop.run_virtual(body, seed=1)
        m = re.search(rb"<SRCCN>(.*?)</SRCCN><DESCN>(.*?)</DESCN><DATAS>(.*)</DATAS>", d[7:-8], re.DOTALL)
        ok = d.startswith(b"<PACKT>") and d.endswith(b"</PACKT>") and m and sender == desc.destination and m.group(1) == desc.identifier and m.group(2) == CLIENT
        want = [m.group(3)] if ok else []
        return new != want, {"requeued_by_last_datagram": [hx(x) if x is not None else None for x in new], "expected": [hx(x) for x in want]}
    arrivals = [(ms, bytes.fromhex(d) if d != "-" else b"", lab) for ms, d, lab in inp["arrivals"]]
    res = run_connection(arrivals, inp["seed"], shuffle=True, jitter=0.0 if inp["fair"] else 0.03, horizon_s=11.0 if len(arrivals) < 140 else 40.0,
                         slow_client_ms=inp.get("slow_client_ms", 0))
    monitors(ctx, res["trace"], res, handler_classes(), inp["fair"], inp)
    return bool(ctx.violations), ctx.violations[0]["observed"] if ctx.violations else "trace satisfies the monitors"
