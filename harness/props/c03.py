"""C03 - change notifications fire exactly once, iff the decoded value changed."""
import asyncio
import importlib

import packs
import translate
from common import Driver, DriverFailure, hx
from props.c02 import show_value, canon_err

LEVEL = "proof"
MANIFEST = dict(
    text="Lean 4 theorems over the structure/observable model for every block, every in-block (offset, segment) update (straddling, one byte of a "
         "2-byte item, identical bytes, empty), every item with sane geometry (all shipped ones but D9, by C18) and every observer list: an item's "
         "observers are called exactly once each, in order, with (old, new) and the new block readable, iff its decoded value differs "
         "(item_notifies_iff_changed / notifies_iff_changed); the range filter loses nothing (skipped_item_unchanged, over the translated filter); "
         "silence when only foreign bits change; over any history of watch/unwatch/patch the observer list never holds duplicates and every call "
         "carries old != new (induction). Tie: translator for the intersection filter + differential correspondence of both real structure classes "
         "(GeckoStructure, GeckoAsyncStructure) with recording observers against the model driver."
         ' Since session 3: histories include bound-method observers (equal, not identical), wholesale loads (set_status_block) followed by patches, and updates that flip the temperature unit under watched temperature items. State inventory (notification_state_inventory): status_block_changed and the value decoders write no attribute; both structures write only the block. Observers that change the registration list from inside their callback (unwatch themselves or others, unwatch_all, watch): dispatch model Model/ObserverDispatch.lean, theorems C03.Reentrant.*, real structures of both classes. Session 5: notification_walk_keeps_no_state (Observable._on_change / watch / unwatch assign nothing); the smallest change of a stored number (one or two steps, whole field / low byte / window), which a presentation coarser than the stored reading would swallow. Round 14: one GeckoAsyncSpa object connected, disconnected and connected again (real `_connect` wiring); the spa changes watched items on every connection. Round 15: observers of a second blocking session; observers read the other polled items from inside their callback (the client having polled them before the update) and must see the installed block through every item. Round 16: histories in which an item is watched, left without observers during a change, and watched again (identical refresh stays silent, a change back to the value reported last fires); blocking_declarations_are_made_for_each_connection. Round 17: an observer applies another update from inside its callback; every item the outer update changed still notifies exactly once.',
    note="Trusted: Lean kernel; translator; correspondence harness. Temperature items: the model compares stored words, the code compares values converted "
         "with the current unit (equivalent; the conversion itself is C14). An observer that raises aborts the remaining notifications (Python semantics) - excluded. "
         "Patches running past byte 1023 are outside the hypotheses (the real code would grow the block).",
    technique="Lean 4 proofs (range-filter soundness, exactly-once by list equality, invariants by induction over histories) + differential correspondence",
    design="5/C03")

CHK_MOD = 4294967291


def checksum(b):
    acc = 0
    for i, x in enumerate(b):
        acc = (acc + (i + 1) * x) % CHK_MOD
    return acc


def platform_pairs(mods):
    by = {}
    for m in mods:
        if m["kind"] in ("cfg", "log"):
            by.setdefault(m["declPlatform"], {"cfg": [], "log": []})[m["kind"]].append(m)
    return [(c, l) for d in by.values() for c in d["cfg"] for l in d["log"]]


class Rig:
    """a real structure (either class) with the real accessors of a cfg/log pair and recording observers"""

    def __init__(self, kind, cfg, log, block):
        cm = importlib.import_module("geckolib.driver.packs." + cfg)
        lm = importlib.import_module("geckolib.driver.packs." + log)
        if kind == "sync":
            from geckolib.driver.spastruct import GeckoStructure
            self.s = GeckoStructure(lambda *a: None)
        else:
            from geckolib.driver.async_spastruct import GeckoAsyncStructure

            async def noop(*a):
                pass
            self.s = GeckoAsyncStructure(lambda *a: None, noop)
        self.s.set_status_block(block)
        self.s.build_accessors(cm.GeckoConfigStruct(self.s), lm.GeckoLogStruct(self.s))
        self.calls = []
        self.observers = {}
        self.items, self.poll_keys, self.stale = {}, [], []     # set by the runner: the items a client polls and reads from its callbacks

    def poll(self):
        for k in self.poll_keys:
            try:
                self.s.accessors[k].value
            except Exception:  # noqa
                pass

    def look(self, from_key):
        """what an observer sees when it reads OTHER items from inside its callback: every value is the one of the block installed now"""
        blk = self.s.status_block
        for k in self.poll_keys:
            try:
                v = self.s.accessors[k].value
            except Exception as e:  # noqa
                v = f"raised {type(e).__name__}"
            w = item_value(self.items[k], blk)
            if v != w and len(self.stale) < 5:
                self.stale.append({"observer of": from_key, "reads item": k, "gets": str(v), "the installed block says": str(w)})

    def observer(self, key, oid):
        """even ids: one function object per observer; odd ids: a BOUND METHOD, i.e. a fresh (equal, not identical) object on
        every access - how clients normally register (`acc.watch(self._on_change)` / `acc.unwatch(self._on_change)`)"""
        k = (key, oid)
        if k not in self.observers:
            if oid % 2 == 1:
                rig = self

                class Obs:
                    def cb(self, sender, old, new, _k=k):
                        rig.calls.append((_k[0], _k[1], sender, old, new, rig.s.status_block))
                        rig.look(_k[0])
                self.observers[k] = Obs()
            else:
                def cb(sender, old, new, _k=k):
                    self.calls.append((_k[0], _k[1], sender, old, new, self.s.status_block))
                    self.look(_k[0])
                self.observers[k] = cb
        o = self.observers[k]
        return o.cb if oid % 2 == 1 else o


def item_raw(it, block):
    """independent decode of the stored field (for the oracle and for temp canonicalisation)"""
    if it["pos"] + it["len"] > len(block):
        return None
    w = int.from_bytes(block[it["pos"]:it["pos"] + it["len"]], "big")
    if it["bitpos"] is not None:
        w = (w >> it["bitpos"]) & it["mask"]
    return w


def item_value(it, block):
    """independent Python reading of the decoded value (stored word for temperatures)"""
    w = item_raw(it, block)
    if w is None:
        return ("err",)
    k = it["kind"]
    if k == "bool":
        return w == 1
    if k == "enum":
        return it["labels"][w] if w < len(it["labels"]) else "Unknown"
    if k == "time":
        return "%02d:%02d" % (w // 256, w % 256)
    return w


def gen_ops(rng, items, n_ops):
    """operation list aimed at: straddling patches, one byte of a 2-byte item, identical bytes, foreign-bit flips, duplicates of watch"""
    ops = []
    usable = [it for it in items if it["pos"] + it["len"] <= 1024]
    watched = rng.sample(usable, min(len(usable), 25))
    # temperature items are presented in the unit the spa's TempUnits item says: watch them all, and let updates flip the unit
    temps = [it for it in usable if it["kind"] == "temp"]
    units = [it for it in usable if it["key"] == "TempUnits"]
    watched += [it for it in temps[:12] if it not in watched]
    for it in watched:
        ops.append(("watch", it["key"], rng.randrange(3)))
        if rng.random() < 0.3:
            ops.append(("watch", it["key"], ops[-1][2]))       # registered twice
        if rng.random() < 0.3:
            ops.append(("watch", it["key"], 5))
    for _ in range(n_ops):
        r = rng.random()
        it = rng.choice(watched if rng.random() < 0.8 else usable)
        p, ln = it["pos"], it["len"]
        if rng.random() < 0.07:
            # a wholesale load (set_status_block: no notifications) that differs from the current block at a few watched items,
            # then a patch that re-sends one of those items' CURRENT bytes (nothing may fire) and one that really changes another
            picks = rng.sample(watched, min(len(watched), rng.randint(1, 3)))
            ops.append(("load", [(x["pos"], bytes(rng.randrange(256) for _ in range(x["len"]))) for x in picks]))
            ops.append(("same", picks[0]["pos"], picks[0]["len"], "identical-after-load"))
            ops.append(("patch", picks[-1]["pos"], bytes(rng.randrange(256) for _ in range(picks[-1]["len"])), "field-after-load"))
            continue
        if units and temps and rng.random() < 0.08:
            # one update that covers the unit setting AND the temperature items: the unit flips, the readings stay (or one changes)
            ops.append(("unitflip", units[0]["key"], rng.choice(temps)["key"] if rng.random() < 0.4 else None, "unitflip"))
            continue
        if rng.random() < 0.12:
            # the smallest change a stored number can make: one step up or down (a temperature moves by 1/18 degree C per step,
            # so a presentation that is coarser than the stored reading would go silent here), sent as the whole field,
            # as its low byte only, or inside a window refresh
            nums = [x for x in watched if x["kind"] in ("temp", "word", "byte") and x["bitpos"] is None]
            if nums:
                ops.append(("step", rng.choice(nums)["key"], rng.choice([1, -1, 1, 2]), rng.choice(["field", "low", "window"]), "step"))
                continue
        if r < 0.07:
            ops.append(("unwatch", it["key"], rng.randrange(3)))
        elif r < 0.10:
            ops.append(("unwatchall", it["key"]))
        elif r < 0.16:
            ops.append(("watch", it["key"], rng.randrange(6)))
        elif r < 0.30:   # exact field bytes, random content
            ops.append(("patch", p, bytes(rng.randrange(256) for _ in range(ln)), "field"))
        elif r < 0.40:  # only one byte of a 2-byte item
            two = [x for x in watched if x["len"] == 2] or [x for x in usable if x["len"] == 2]
            if two:
                it2 = rng.choice(two)
                ops.append(("patch", it2["pos"] + rng.randrange(2), bytes([rng.randrange(256)]), "half"))
        elif r < 0.50:   # identical bytes
            ops.append(("same", p, ln, "identical"))
        elif r < 0.62:   # flip exactly one bit of the item's byte(s) (inside or outside a bit field)
            ops.append(("flip", p + rng.randrange(ln), rng.randrange(8), "bitflip"))
        elif r < 0.74:   # straddle
            off = max(0, p - rng.randrange(1, 3))
            ops.append(("patch", off, bytes(rng.randrange(256) for _ in range(min(1024 - off, ln + rng.randrange(1, 4)))), "straddle"))
        elif r < 0.80:   # ends just before / starts just after
            if rng.random() < 0.5 and p > 0:
                ops.append(("patch", p - 1, bytes([rng.randrange(256)]), "adjacent"))
            elif p + ln < 1024:
                ops.append(("patch", p + ln, bytes([rng.randrange(256)]), "adjacent"))
        elif r < 0.84:
            ops.append(("patch", rng.randrange(1024), b"", "empty"))
        elif r < 0.92:
            off = rng.randrange(1024)
            ops.append(("patch", off, bytes(rng.randrange(256) for _ in range(rng.randrange(1, min(60, 1024 - off) + 1))), "random"))
        else:            # full / window refresh with a few changed bytes
            ops.append(("refresh", rng.choice([(0, 1024), (256, 480)]), rng.randrange(0, 6), "refresh"))
    # ---- an item that is watched, left alone for a while, and watched again: watch, a change, every observer removed, a change nobody
    #      watches, watch again, an identical refresh (silent), a change BACK to the value reported last (fires, old = the unwatched value)
    nums_ = [it for it in watched if it["kind"] not in ("temp",) and it["bitpos"] is None and it["len"] in (1, 2)][:3]
    for it in nums_:
        k = it["key"]
        ops += [("unwatchall", k), ("watch", k, 7), ("step", k, 1, "field", "rewatch"), ("unwatchall", k), ("step", k, 1, "field", "rewatch"),
                ("watch", k, 7), ("same", it["pos"], it["len"], "rewatch"), ("step", k, -1, "field", "rewatch"), ("step", k, 3, "field", "rewatch"),
                ("unwatch", k, 7), ("step", k, -3, "field", "rewatch"), ("watch", k, 6), ("step", k, 3, "field", "rewatch")]
    return ops


def reentrant_case(rng):
    """observers 1..n on ONE watched item (a real accessor of a real structure), each with a reaction it performs on the item's
    registration list WHEN IT IS CALLED: nothing / unwatch somebody (maybe itself, maybe absent) / unwatch_all / watch somebody"""
    n = rng.randint(2, 5)
    live = list(range(1, n + 1))
    reacts = {}
    for o in live + [9]:
        r = rng.random()
        if r < 0.45:
            continue
        if r < 0.8:
            reacts[o] = ("u", rng.choice(live + [o, 9]))
        elif r < 0.9:
            reacts[o] = ("a", 0)
        else:
            reacts[o] = ("w", rng.choice([9] + live))
    return live, reacts


REENTRANT_CORPUS = [([1, 2, 3], {1: ("u", 1)}), ([1, 2, 3], {1: ("u", 3)}), ([1, 2, 3], {2: ("a", 0)}), ([1, 2], {1: ("w", 9), 2: ("u", 1)}),
                    ([1, 2, 3, 4], {2: ("u", 2), 3: ("u", 3)}), ([1, 2, 3], {1: ("u", 2), 2: ("u", 3)})]


def run_reentrant(cls_name, live, reacts, changes=2):
    """REAL structure + real accessor: the item is patched `changes` times (its value changes each time); returns per change the
    observers called (in order) and the registration afterwards, read back through has/unwatch probes only at the end"""
    import importlib
    mod = importlib.import_module("geckolib.driver.spastruct" if cls_name == "sync" else "geckolib.driver.async_spastruct")
    from geckolib.driver.accessor import GeckoByteStructAccessor

    async def noop(*a):
        pass
    st = mod.GeckoStructure(lambda *a: None) if cls_name == "sync" else mod.GeckoAsyncStructure(lambda *a: None, noop)
    acc = GeckoByteStructAccessor(st, "Item", 10, None)
    st.accessors = {"Item": acc}
    st.set_status_block(bytes(1024))
    called = []
    obs = {}

    def mk(o):
        def cb(sender, old, new):
            called.append(o)
            r = reacts.get(o)
            if r is None:
                return
            try:
                if r[0] == "u":
                    acc.unwatch(obs[r[1]])
                elif r[0] == "a":
                    acc.unwatch_all()
                else:
                    acc.watch(obs[r[1]])
            except ValueError:
                pass
        return cb
    for o in set(live) | {9} | {r[1] for r in reacts.values() if r[0] != "a"}:
        obs[o] = mk(o)
    for o in live:
        acc.watch(obs[o])
    out = []
    registered = list(live)
    for k in range(changes):
        del called[:]
        st.replace_status_block_segment(10, bytes([k + 1]))
        out.append(list(called))
    return out


def run_nested_update(cls_name, nested_at):
    """REAL structure, three watched byte items A (10), B (20), C (30): ONE update changes A and B; the observer of `nested_at` applies
    another update (to C) from inside its callback - what a client does that reacts to a change by writing. Returns the calls in order."""
    import importlib
    mod = importlib.import_module("geckolib.driver.spastruct" if cls_name == "sync" else "geckolib.driver.async_spastruct")
    from geckolib.driver.accessor import GeckoByteStructAccessor

    async def noop(*a):
        pass
    st = mod.GeckoStructure(lambda *a: None) if cls_name == "sync" else mod.GeckoAsyncStructure(lambda *a: None, noop)
    accs = {"A": GeckoByteStructAccessor(st, "A", 10, None), "B": GeckoByteStructAccessor(st, "B", 20, None), "C": GeckoByteStructAccessor(st, "C", 30, None)}
    st.accessors = dict(accs)
    st.set_status_block(bytes(1024))
    calls = []

    def mk(k):
        def cb(sender, old, new):
            calls.append([k, old, new, accs[k].value])
            if k == nested_at and not any(c[0] == "C" for c in calls):
                st.replace_status_block_segment(30, bytes([7]))
        return cb
    for k in accs:
        accs[k].watch(mk(k))
    seg = bytearray(12)
    seg[0], seg[10] = 1, 2
    st.replace_status_block_segment(10, bytes(seg))
    return calls


def check_nested_updates(ctx, only=None):
    """an observer that applies another update from inside its callback: every item the outer update changed still notifies exactly once"""
    for cls_name in ("sync", "async"):
        for nested_at in ("A", "B"):
            if only is not None and only != [cls_name, nested_at]:
                continue
            try:
                calls = run_nested_update(cls_name, nested_at)
            except Exception as e:  # noqa
                calls = [["raised", f"{type(e).__name__}: {e}"]]
            ctx.count("evaluations")
            ctx.hist("nested_updates", f"{cls_name}:{nested_at}")
            want = sorted([["A", 0, 1, 1], ["B", 0, 2, 2], ["C", 0, 7, 7]])
            if sorted(calls) != want:
                ctx.violation(f"notify:nested-update:{cls_name}", {"kind": "nested-update", "case": [cls_name, nested_at]},
                              {"calls (item, old, new, value read in the callback), in any order": want}, {"calls": calls})
                return


def check_reentrant(ctx, lines, impl_ans):
    """observers that change the registration list from inside their callback: real code vs the dispatch model, and the property read
    directly (a removed observer is never called; an observer that stays registered is called exactly once per change)"""
    from props.c03_model import model_notify
    cases = list(REENTRANT_CORPUS) + [reentrant_case(ctx.rng) for _ in range(40 if ctx.quick else 600)]
    for live, reacts in cases:
        for cls_name in ("sync", "async"):
            inp = {"kind": "reentrant", "structure": cls_name, "observers": live, "reactions": {str(k): list(v) for k, v in reacts.items()}}
            try:
                got = run_reentrant(cls_name, live, reacts)
            except Exception as e:  # noqa
                ctx.violation(f"reentrant:raised:{type(e).__name__}", inp, "the notification completes", f"{type(e).__name__}: {e}")
                continue
            ctx.count("evaluations")
            cur = list(live)
            for k, called in enumerate(got):
                want_called, want_live = model_notify(cur, reacts)
                enc = lambda l: ".".join(map(str, l)) or "-"
                rs = ";".join(f"{o}:{r[0]}:{r[1]}" for o, r in sorted(reacts.items())) or "-"
                lines.append(f"notify {enc(cur)} {rs}")
                impl_ans.append(f"called={enc(called)} live={enc(want_live)}")
                # ---- the property, read directly
                removed_before_turn = [o for o in called if o not in set(_registered_at_turn(cur, reacts, o))]
                kept = [o for o in cur if all(not (r[0] == "a" or (r[0] == "u" and r[1] == o)) for r in reacts.values())]
                missed = [o for o in kept if called.count(o) != 1]
                if len(set(called)) != len(called) or removed_before_turn or missed:
                    what = "removed-observer-called" if removed_before_turn else ("registered-observer-missed" if missed else "called-twice")
                    ctx.violation(f"reentrant:{what}", dict(inp, change_number=k + 1, registered_at_change=cur),
                                  "each observer registered and not removed is called exactly once; a removed observer is not called",
                                  {"called": called, "never_removed_but_not_called_once": missed, "called_after_removal": removed_before_turn})
                    break
                cur = want_live


def _registered_at_turn(cur, reacts, o):
    """the registration list at the moment observer o's turn comes, following the calls actually prescribed by the dispatch rule"""
    live = list(cur)
    for x in cur:
        if x == o:
            return live
        if x in live:
            r = reacts.get(x)
            if r is None:
                continue
            if r[0] == "u" and r[1] in live:
                live.remove(r[1])
            elif r[0] == "a":
                live = []
            elif r[0] == "w" and r[1] not in live:
                live.append(r[1])
    return live


def run(ctx):
    st = translate.run(["AccessorArith", "Packs", "Pinned", "Skeletons"])
    ctx.cov["translator"] = st
    for k, v in st.items():
        if v != "ok":
            ctx.obligation_broken(f"translate:{k}", v)
    ctx.lean_obligations("GeckoModel.Properties.C03")
    rng = ctx.rng
    mods = packs.load_tables()
    pairs = platform_pairs(mods)
    chosen = rng.sample(pairs, 10 if ctx.quick else 120)
    n_ops = 60 if ctx.quick else 150
    lines, impl_ans = [], []
    nontrivial = set()
    touched_items = set()
    for cm, lm in chosen:
        items = {it["key"]: it for it in cm["items"]}
        for it in lm["items"]:
            items[it["key"]] = it
        itemlist = list(items.values())
        if "TempUnits" not in items:
            itemlist = [it for it in itemlist if it["kind"] != "temp"] and itemlist
        block0 = bytes(rng.randrange(256) for _ in range(1024))
        ops = gen_ops(rng, [it for it in itemlist if it["kind"] != "temp" or "TempUnits" in items], n_ops)
        try:
            rigs = [Rig("sync", cm["file"], lm["file"], block0), Rig("async", cm["file"], lm["file"], block0)]
        except Exception as e:  # noqa
            ctx.violation(f"build:{cm['file']}:{lm['file']}", {"cfg": cm["file"], "log": lm["file"]}, "structure builds its accessors", f"{type(e).__name__}: {e}")
            continue
        lines.append(f"new {cm['file']} {lm['file']} {block0.hex()}")
        impl_ans.append(f"ok {len(items)}")
        registered = {}     # oracle's own view: key -> ordered observer ids
        block = block0
        for op in ops:
            kind = op[0]
            if kind in ("watch", "unwatch", "unwatchall"):
                key = op[1]
                answers = []
                for rig in rigs:
                    acc = rig.s.accessors[key]
                    try:
                        if kind == "watch":
                            acc.watch(rig.observer(key, op[2]))
                        elif kind == "unwatch":
                            acc.unwatch(rig.observer(key, op[2]))
                        else:
                            acc.unwatch_all()
                        answers.append("ok")
                    except Exception as e:  # noqa
                        answers.append(canon_err(e))
                lst = registered.setdefault(key, [])
                if kind == "watch" and op[2] not in lst:
                    lst.append(op[2])
                elif kind == "unwatch" and op[2] in lst:
                    lst.remove(op[2])
                elif kind == "unwatchall":
                    lst.clear()
                lines.append(f"{kind} {key}" + (f" {op[2]}" if kind != "unwatchall" else ""))
                impl_ans.append(answers[0])
                if answers[0] != answers[1]:
                    ctx.violation(f"classes-differ:{kind}", {"cfg": cm["file"], "log": lm["file"], "op": list(map(str, op))}, answers[0], answers[1])
                ctx.hist("ops", kind)
                continue
            if kind == "load":
                nb_ = bytearray(block)
                for pos_, bs_ in op[1]:
                    nb_[pos_:pos_ + len(bs_)] = bs_
                nb_ = bytes(nb_)
                answers = []
                for rig in rigs:
                    try:
                        rig.s.set_status_block(nb_)
                        answers.append(f"ok {checksum(rig.s.status_block)}")
                    except Exception as e:  # noqa
                        answers.append(canon_err(e))
                lines.append(f"load {nb_.hex()}")
                impl_ans.append(answers[0])
                if answers[0] != answers[1]:
                    ctx.violation("classes-differ:load", {"cfg": cm["file"], "log": lm["file"]}, answers[0], answers[1])
                if answers[0] != f"ok {checksum(nb_)}":
                    ctx.violation("load:block-not-installed", {"cfg": cm["file"], "log": lm["file"], "block": nb_.hex()},
                                  "after set_status_block the structure holds the loaded block", answers[0])
                block = nb_
                ctx.hist("ops", "load")
                continue
            # ---- an update
            if kind == "patch":
                off, seg, cls = op[1], op[2], op[3]
            elif kind == "same":
                off, seg, cls = op[1], block[op[1]:op[1] + op[2]], op[3]
            elif kind == "flip":
                off, seg, cls = op[1], bytes([block[op[1]] ^ (1 << op[2])]), op[3]
            elif kind == "step":
                t_ = items[op[1]]
                bits_ = 8 * t_["len"]
                w_ = (int.from_bytes(block[t_["pos"]:t_["pos"] + t_["len"]], "big") + op[2]) % (1 << bits_)
                fb_ = w_.to_bytes(t_["len"], "big")
                if op[3] == "low":
                    off, seg = t_["pos"] + t_["len"] - 1, fb_[-1:]
                elif op[3] == "window":
                    o_ = max(0, t_["pos"] - 7)
                    e_ = min(1024, t_["pos"] + t_["len"] + 5)
                    off, seg = o_, block[o_:t_["pos"]] + fb_ + block[t_["pos"] + t_["len"]:e_]
                else:
                    off, seg = t_["pos"], fb_
                cls = op[4]
            elif kind == "unitflip":
                u = items[op[1]]
                nb_ = bytearray(block)
                w_ = int.from_bytes(nb_[u["pos"]:u["pos"] + u["len"]], "big")
                if u["bitpos"] is not None:
                    w_ ^= 1 << u["bitpos"]
                else:
                    w_ = 0 if w_ else 1
                nb_[u["pos"]:u["pos"] + u["len"]] = w_.to_bytes(u["len"], "big")
                if op[2] is not None:
                    t_ = items[op[2]]
                    nb_[t_["pos"]:t_["pos"] + t_["len"]] = bytes(rng.randrange(256) for _ in range(t_["len"]))
                off, seg, cls = 0, bytes(nb_), op[3]
            else:
                (o, ln), nchg, cls = op[1], op[2], op[3]
                seg = bytearray(block[o:o + ln])
                for _ in range(nchg):
                    seg[rng.randrange(len(seg))] = rng.randrange(256)
                off, seg = o, bytes(seg)
            new_block = block[:off] + seg + block[off + len(seg):]
            outs = []
            for rig in rigs:
                rig.calls.clear()
                if not rig.poll_keys:
                    rig.items = items
                    rig.poll_keys = [k for k, v in registered.items() if v and items[k]["kind"] != "temp" and items[k]["pos"] + items[k]["len"] <= 1024][:40]
                rig.poll()            # the client has read its items since the last update
                try:
                    rig.s.replace_status_block_segment(off, seg)
                    err = None
                except Exception as e:  # noqa
                    err = canon_err(e)
                if rig.stale:
                    ctx.violation(f"notify:stale-item-value:{cls}", {"cfg": cm["file"], "log": lm["file"], "block": block.hex(), "off": off, "seg": hx(seg),
                                                                      "registered": {k: v for k, v in registered.items() if v}},
                                  "every observer already reads the new block, through any item", rig.stale[:3])
                    rig.stale = []
                parts = []
                for (key, oid, sender, old, new, seen) in rig.calls:
                    it = items[key]
                    if it["kind"] == "temp":
                        o_s, n_s = f"int:{item_raw(it, block)}", f"int:{item_raw(it, new_block)}"
                    else:
                        o_s, n_s = show_value(old), show_value(new)
                    parts.append(f"{key}:{oid}:{o_s}>{n_s}:{1 if seen == new_block else 0}")
                outs.append((f"{checksum(rig.s.status_block)} " + (";".join(parts) if parts else "none")) if err is None else err)
            lines.append(f"patch {off} {hx(seg)}")
            impl_ans.append(outs[0])
            ctx.hist("ops", "patch:" + cls)
            ctx.count("evaluations")
            if outs[0] != outs[1]:
                ctx.violation(f"classes-differ:patch:{cls}", {"cfg": cm["file"], "log": lm["file"], "off": off, "seg": hx(seg)}, outs[0][:300], outs[1][:300])
            # ---- direct oracle: expected calls from an independent decode of every item on old and new block
            expected = []
            for key, it in items.items():
                if it["pos"] + it["len"] > 1024:
                    continue
                if item_value(it, block) != item_value(it, new_block):
                    touched_items.add((cm["file"], lm["file"], key))
                    for oid in registered.get(key, []):
                        expected.append((key, oid))
            got = [(c[0], c[1]) for c in rigs[0].calls]
            if sorted(got) != sorted(expected):
                missing = [x for x in expected if x not in got]
                spurious = [x for x in got if x not in expected]
                dup = [x for x in set(got) if got.count(x) > 1]
                what = "missing" if missing else ("duplicate" if dup else "spurious")
                ctx.violation(f"notify:{what}:{cls}", {"cfg": cm["file"], "log": lm["file"], "block": block.hex(), "off": off, "seg": hx(seg),
                                                       "registered": {k: v for k, v in registered.items() if v}},
                              {"calls": expected[:10]}, {"calls": got[:10], "missing": missing[:5], "spurious": spurious[:5], "duplicate": dup[:5]})
            for (key, oid, sender, old, new, seen) in rigs[0].calls:
                it = items[key]
                if seen != new_block:
                    ctx.violation(f"notify:stale-block:{cls}", {"cfg": cm["file"], "log": lm["file"], "off": off, "seg": hx(seg), "key": key},
                                  "observer reads the new block", "observer saw the old block")
                if it["kind"] != "temp" and (old != item_value(it, block) or new != item_value(it, new_block)):
                    ctx.violation(f"notify:wrong-values:{cls}", {"cfg": cm["file"], "log": lm["file"], "off": off, "seg": hx(seg), "key": key},
                                  [item_value(it, block), item_value(it, new_block)], [old, new])
            if expected:
                nontrivial.add((cls, len(seg), tuple(sorted({items[k]["kind"] for k, _ in expected}))))
            ctx.hist("updates_with_calls", "yes" if expected else "no")
            block = new_block
    try:
        check_reentrant(ctx, lines, impl_ans)
    except Exception as e:  # noqa
        ctx.obligation_broken("harness:reentrant-observers", f"{type(e).__name__}: {e}")
    try:
        check_nested_updates(ctx)
    except Exception as e:  # noqa
        ctx.obligation_broken("harness:nested-updates", f"{type(e).__name__}: {e}")
    try:
        check_reconnected_object(ctx)
    except Exception as e:  # noqa
        ctx.obligation_broken("harness:reconnected-object", f"{type(e).__name__}: {e}")
    try:
        check_second_blocking_session(ctx)
    except Exception as e:  # noqa
        ctx.obligation_broken("harness:second-blocking-session", f"{type(e).__name__}: {e}")
    try:
        model = Driver("Driver/C03.lean").run(lines)
    except DriverFailure as e:
        ctx.obligation_broken("driver:C03", e)
        model = None
    if model is not None:
        nd = 0
        for i, (mo, im) in enumerate(zip(model, impl_ans)):
            if mo != im:
                nd += 1
                if nd <= 3:
                    ctx.obligation_broken("correspondence:struct-model-vs-implementation", {"op": lines[i][:200], "model": mo[:400], "impl": im[:400]})
        ctx.cov["correspondence_ops"] = len(lines)
        ctx.cov["correspondence_disagreements"] = nd
    for i in range(len(lines)):
        if lines[i].startswith("patch") and impl_ans[i].split(" ", 1)[1] != "none":
            ctx.sample({"op": lines[i][:120], "impl": impl_ans[i][:200]})
    ctx.cov["structures"] = len(chosen) * 2
    ctx.cov["items_whose_value_changed_at_least_once"] = len(touched_items)
    ctx.cov["distinct_nontrivial"] = len(nontrivial)
    ctx.cov["rule"] = ("seeded cfg/log pairs of one platform, both structure classes, random initial block, ops = watch (incl. duplicates) / unwatch (incl. absent) / "
                       "unwatch_all / patches of classes field, half (one byte of a 2-byte item), identical, bitflip, straddle, adjacent, empty, random, refresh, "
                       "step (a stored number moves by one or two: whole field / low byte / window). "
                       "a case = one update; non-trivial = at least one observer call expected; distinct by (patch class, segment length, kinds of items notified)")
    ctx.assumptions += ["observers do not raise", "temperature payloads are compared as stored words (conversion is C14)"]


def run_reconnected_object(n_connections=3):
    """ONE `GeckoAsyncSpa` object connected, disconnected and connected again (its public connect / disconnect, the real `_connect`
    wiring) against the real simulator; on every connection the client watches a few items, the spa changes them one at a time and
    reports each change. Returns per connection the list of (changed item, calls seen) records."""
    import fakenet
    import vloop
    from geckolib.async_spa import GeckoAsyncSpa
    from geckolib.async_spa_descriptor import GeckoAsyncSpaDescriptor
    from geckolib.async_tasks import AsyncTasks
    from props import c10
    out = []

    async def body(loop):
        sim = fakenet.make_sim(c10.SNAP)
        net = fakenet.Network(loop, sim, phases=[], seed=1)
        loop.network = net

        async def on_event(*a, **k):
            pass
        tm = AsyncTasks()
        async with tm:
            spa = GeckoAsyncSpa(b"IOSclient-uuid", GeckoAsyncSpaDescriptor(c10.IDENT.encode(), "Spa", fakenet.SIM_ADDR), tm, on_event)
            for conn in range(n_connections):
                await asyncio.wait_for(spa.connect(), 300)
                await asyncio.sleep(1.0)
                rec = {"connection": conn + 1, "connected": spa.is_connected, "changes": []}
                if not spa.is_connected:
                    out.append(rec)
                    break
                tags = [t for t, a in sim.structure.accessors.items() if a.read_write is not None and a.type == "Enum" and a.items
                        and len([x for x in a.items if x]) >= 2 and t.startswith("Ud") and t in spa.accessors][:4]
                calls = []
                obs = {}
                for t in tags:
                    def cb(sender, old, new, _t=t):
                        calls.append((_t, str(old), str(new), str(spa.accessors[_t].value)))
                    obs[t] = cb
                    spa.accessors[t].watch(cb)
                for t in tags:
                    sa = sim.structure.accessors[t]
                    labs = [x for x in sa.items if x]
                    old = sa.value
                    new = labs[0] if old != labs[0] else labs[1]
                    import builtins
                    real_print = builtins.print
                    builtins.print = lambda *a, **k: None
                    sim._send_structure_change = True
                    try:
                        sa.value = new
                    finally:
                        sim._send_structure_change = False
                        builtins.print = real_print
                    queued = list(sim._socket._send_handlers)
                    sim._socket._send_handlers.clear()
                    live = [x for x in net.transports if not x.closed]
                    for hdl, _d in queued:
                        if live:
                            net.push(live[-1], hdl.send_bytes)
                    n0 = len(calls)
                    await asyncio.sleep(1.0)
                    rec["changes"].append({"item": t, "old": str(old), "new": str(new), "calls": [list(c) for c in calls[n0:]]})
                for t in tags:
                    spa.accessors[t].unwatch(obs[t])
                out.append(rec)
                await spa.disconnect()
                await asyncio.sleep(1.0)
    vloop.run_virtual(body, stable=True)
    return out


def check_reconnected_object(ctx):
    recs = run_reconnected_object()
    for r in recs:
        inp = {"kind": "reconnected-object", "connection": r["connection"]}
        ctx.count("evaluations", max(1, len(r.get("changes", []))))
        ctx.hist("reconnected_object", f"connection-{r['connection']}:{'ok' if r['connected'] else 'not-connected'}")
        if not r["connected"]:
            ctx.violation(f"reconnected-object:connection-{r['connection']}:not-connected", inp, "the same spa object connects again", "is_connected is False")
            break
        for ch in r["changes"]:
            want = [[ch["item"], ch["old"], ch["new"], ch["new"]]]
            if ch["calls"] != want:
                ctx.violation(f"reconnected-object:connection-{r['connection']}:notifications", dict(inp, item=ch["item"]),
                              {"calls (item, old, new, value read in the callback)": want}, {"calls": ch["calls"][:5]})
                return
    if len(recs) < 2:
        ctx.obligation_broken("harness:reconnected-object", f"only {len(recs)} connection(s) ran")


def check_second_blocking_session(ctx):
    """the blocking client: a second `GeckoSpa` session in the same process (real start_connect handshake, stepped) to a spa of the same
    pack and versions; the spa changes watched items and reports them - exactly one call each, right values, new block visible"""
    import bsessions
    from common import REPO
    r = bsessions.notifications_in_second_session(str(REPO / "tests" / "snapshots" / "inYT-Pump1Hi-2020-12-13 11_19_35.snapshot"))
    ctx.count("evaluations", max(1, len(r.get("changes", []))))
    ctx.hist("second_blocking_session", "connected" if all(r["connected"]) else "not-connected")
    if not all(r["connected"]):
        ctx.violation("second-blocking-session:not-connected", {"kind": "second-blocking-session"}, "both sessions connect", r["connected"])
        return
    for ch in r["changes"]:
        if ch["calls"] != ch["want"]:
            ctx.violation("second-blocking-session:notifications", {"kind": "second-blocking-session", "item": ch["item"]},
                          {"calls (item, old, new, value read in the callback)": ch["want"]}, {"calls": ch["calls"][:5]})
            return


def replay(inp):
    if inp.get("kind") == "second-blocking-session":
        from common import Ctx
        c = Ctx("C03", "quick", 0)
        check_second_blocking_session(c)
        return bool(c.violations), c.violations[0]["observed"] if c.violations else "every change notified exactly once"
    if inp.get("kind") == "reconnected-object":
        from common import Ctx
        c = Ctx("C03", "quick", 0)
        check_reconnected_object(c)
        return bool(c.violations), c.violations[0]["observed"] if c.violations else "every change notified exactly once on every connection"
    if inp.get("kind") == "nested-update":
        from common import Ctx
        c = Ctx("C03", "quick", 0)
        check_nested_updates(c, only=inp["case"])
        return bool(c.violations), c.violations[0]["observed"] if c.violations else "every changed item notified once"
    if inp.get("kind") == "reentrant":
        reacts = {int(k): tuple(v) for k, v in inp["reactions"].items()}
        got = run_reentrant(inp["structure"], inp["observers"], reacts)
        from props.c03_model import model_notify
        want, _ = model_notify(inp["observers"], reacts)
        return got[0] != want, {"called": got[0], "rule": want}
    block = bytes.fromhex(inp["block"])
    rig = Rig("sync", inp["cfg"], inp["log"], block)
    for key, oids in inp.get("registered", {}).items():
        for oid in oids:
            rig.s.accessors[key].watch(rig.observer(key, oid))
    seg = bytes.fromhex(inp["seg"]) if inp["seg"] != "-" else b""
    mods = {m["file"]: m for m in packs.load_tables()}
    items = {it["key"]: it for f in (inp["cfg"], inp["log"]) for it in mods[f]["items"]}
    rig.items = items
    rig.poll_keys = [k for k, v in inp.get("registered", {}).items() if v and items[k]["kind"] != "temp" and items[k]["pos"] + items[k]["len"] <= 1024][:40]
    rig.poll()
    rig.s.replace_status_block_segment(inp["off"], seg)
    new_block = block[:inp["off"]] + seg + block[inp["off"] + len(seg):]
    if rig.stale:
        return True, rig.stale[:3]
    expected = sorted((k, o) for k, it in items.items() if it["pos"] + it["len"] <= 1024 and item_value(it, block) != item_value(it, new_block)
                      for o in inp.get("registered", {}).get(k, []))
    got = sorted((c[0], c[1]) for c in rig.calls)
    return got != expected, {"calls": got, "expected": expected}
