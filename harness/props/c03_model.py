"""reference dispatch rule of Observable._on_change (mirrors Model/ObserverDispatch.lean; the Lean driver is the one compared)"""


def model_notify(live, reacts):
    cur = list(live)
    called = []
    for o in live:
        if o not in cur:
            continue
        called.append(o)
        r = reacts.get(o)
        if r is None:
            continue
        if r[0] == "u":
            if r[1] in cur:
                cur.remove(r[1])
        elif r[0] == "a":
            cur = []
        elif r[1] not in cur:
            cur.append(r[1])
    return called, cur
