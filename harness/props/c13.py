"""C13 - facade commands emit exactly the intended device write and are idempotent."""
import asyncio
import glob
import os

import fakenet
import translate
import vloop
from common import Driver, DriverFailure, REPO, hx

LEVEL = "proof"
MANIFEST = dict(
    text="Lean 4 theorems over the command model (on C02's accessor model and C05's echo application) for every well-formed item, every 1024-byte block (= every "
         "current state) and every argument: an on/off command emits at most one command and none exactly when already in the requested state (one_or_none); key-press "
         "devices press once and - the spa toggling being the property's stated assumption - reach the requested state after which the command is a no-op; direct-write "
         "switches (economy mode), pump modes, temperature unit and watercare emit exactly one set-value / SETWC that the spa can store and that reads back as requested "
         "(through C02's write-then-read theorems); the client mirror equals the spa block after any command sequence (induction); pack commands use the command counter "
         "(C16's regenerated call-site table). Tie: differential correspondence on the FULL real stack (GeckoAsyncSpaMan + locator + spa + facade on the virtual loop, "
         "peer = the real simulator extended to apply writes / key presses and echo through its own report_changes): predicted emissions vs datagrams decoded by the real "
         "handlers; threaded twins on a stub spa. Search monitors: datagram count, pack type / versions / sequence range, state after echo, second command silent."
         ' Since session 3: watercare_command_survives_polls (Model/WatercareRace.lean: one async_set_mode whose statement order is GENERATED, any number of facade polls, the protocol lock, any scheduler: once the command has returned spa and client both hold the requested mode) with the counterexample for the optimistic order; the real stack is exercised with a spa that holds its watercare answers, and with devices switched at the spa between facade commands. Session 4: a LONG session on one connection (140 pack commands, more than two cycles of the command sequence numbers): each still one well-formed in-range command, applied and read back. Session 4: a long session on the blocking client too (real GeckoSpa, real pump and switch classes, 150 commands decoded by the real SPACK decoder, stored and echoed). Also: a command issued while another exchange holds the connection for longer than a request timeout goes out exactly once. Session 5: every_plain_command_gets_its_task (AsyncTasks.add_task creates a task on every normal end, no test); two commands issued back to back through the facade\'s plain (non-awaitable) entry points are two command datagrams and both read back. Round 14: pending_report_scenarios (the spa\'s report of an applied change held back: change of mind, two writes behind a slow exchange); known finding D17 (lost update between bit fields of one word). Round 15: blocking clients (bsessions) - a command through one client\'s device reaches its own spa only; every pump commanded a second time while its neighbours in the shared byte / word run.',
    note="The spa's reaction (store + echo; key press toggles the device behind the key) is the assumption the property prescribes, implemented by the harness peer and as "
         "definitions in the model. Target temperature conversion is C14's. Trusted: Lean kernel, translator for the tables, the harness.",
    technique="Lean 4 proofs by composition of C02/C05/C16 theorems + induction over command sequences; differential correspondence on the full real stack",
    design="5/C13")

IDENT = "SPA01:02:03:04:05:06"


def model_spa_class():
    from geckolib.utils.simulator import GeckoSimulator
    from geckolib.const import GeckoConstants
    from geckolib.driver import GeckoPackCommandProtocolHandler, GeckoPartialStatusBlockProtocolHandler, GeckoWatercareProtocolHandler

    class ModelSpa(GeckoSimulator):
        """the spa as the property's quantifier prescribes it: stores writes, toggles on key presses, echoes partial updates"""
        commands = []     # decoded commands as received
        wc_mode = 1

        hold_echo = False     # the spa's REPORT of a change it applied is late (it acknowledges the command at once)
        held_echo = []

        def _echo(self, changes, sender):
            for client in self._clients or [sender]:
                h = GeckoPartialStatusBlockProtocolHandler.report_changes(self._socket, changes, parms=client)
                if self.hold_echo:
                    self.held_echo.append(h)
                else:
                    self._socket.queue_send(h, client)

        def _on_pack_command(self, handler, sender):
            self._socket.queue_send(GeckoPackCommandProtocolHandler.response(parms=sender), sender)
            rec = {"seq": handler._sequence, "pack_type": handler.pack_type}
            if handler.is_key_press:
                rec.update(kind="key", key=handler.keycode)
                dev = [v for v in GeckoConstants.DEVICES.values() if v[1] == handler.keycode]
                if dev:
                    acc = self.structure.accessors.get(dev[0][2])
                    if acc is not None:
                        old = self.structure.status_block
                        if acc.type == "Bool":
                            new = not acc.value
                        else:
                            labels = acc.items
                            new = "OFF" if acc.value != "OFF" else [l for l in labels if l not in ("OFF", "")][0]
                        self._send_structure_change = True
                        try:
                            acc.value = new
                        finally:
                            self._send_structure_change = False
            elif handler.is_set_value:
                rec.update(kind="set", pos=handler.position, data=bytes(handler.new_data))
                self.structure.replace_status_block_segment(handler.position, bytes(handler.new_data))
                self._echo([(handler.position, bytes(handler.new_data))], sender)
            self.commands.append(rec)

        hold_wc = False   # keep the answers to watercare queries back (a slow spa); they are released with the mode AS IT WAS when asked
        held = []

        def _on_watercare(self, handler, sender):
            # GETWC -> WCGET(mode); the SETWC verb is not claimed by the library's handler (finding D4), so it is decoded in dispatch below
            if self.hold_wc:
                self.held.append(GeckoWatercareProtocolHandler.response(self.wc_mode, parms=sender))
                return
            self._socket.queue_send(GeckoWatercareProtocolHandler.response(self.wc_mode, parms=sender), sender)
    return ModelSpa


def connect_stack(loop, snapshot):
    """returns (manager, sim, net) with the real manager connected to the model spa"""
    from geckolib import GeckoAsyncSpaMan

    class Man(GeckoAsyncSpaMan):
        async def handle_event(self, event, **kw):
            pass
    cls = model_spa_class()
    cls.commands = []
    cls.held = []
    cls.hold_wc = False
    cls.hold_echo = False
    cls.held_echo = []
    sim = fakenet.make_sim(snapshot, cls)
    net = fakenet.Network(loop, sim)
    loop.network = net
    # SETWC is decoded by the peer outside the library's handler list
    orig = sim._socket.dispatch_recevied_data

    def dispatch(data, remote):
        if data.startswith(b"SETWC") and len(data) >= 7:
            sim.commands.append({"kind": "setwc", "seq": data[5], "mode": data[6]})
            sim.wc_mode = data[6]
            from geckolib.driver import GeckoPacketProtocolHandler
            sim._socket.queue_send(GeckoPacketProtocolHandler(content=b"WCSET", parms=remote), remote)
            return
        return orig(data, remote)
    sim._socket.dispatch_recevied_data = dispatch
    man = Man("uuid-1", spa_identifier=IDENT, spa_address="10.0.0.9", spa_name="Spa")
    return man, sim, net


def pending_report_scenarios(ctx, snapshot, prefix, with_shared_word=True):
    """the REAL client path (manager -> `_connect` -> facade -> accessor -> the spa's set-value callback -> protocol) against the model spa,
    for orders of events a direct call of the accessor never meets:
      (a) change of mind: a setting is written, and written BACK to what the client still shows, before the spa has reported the first
          write (the client's copy of the block is only a mirror: it changes when the report arrives) - both commands must reach the
          spa, which ends up with the LAST value written, and the client reads that back;
      (b) two writes of different items issued together while another exchange holds the connection: each reaches the spa as computed.
    Violations are recorded under `prefix` (the calling property)."""
    name = os.path.basename(snapshot)
    out = {}
    import geckolib.config as gcfg

    async def body(loop):
        man, sim, net = connect_stack(loop, snapshot)
        async with man:
            for _ in range(600):
                await asyncio.sleep(0.1)
                if man.facade is not None:
                    break
            if man.facade is None:
                out["connected"] = False
                return
            out["connected"] = True
            fac, spa = man.facade, man.facade.spa
            await settle(2.0)

            def release_reports():
                live = [x for x in net.transports if not x.closed]
                for h in sim.held_echo:
                    if live:
                        net.push(live[-1], h.send_bytes)
                del sim.held_echo[:]
            # ---- (a) the heater's set point, and one enumerated user demand
            wh = fac.water_heater
            cases = []
            if wh is not None and wh.is_present:
                t0 = wh.target_temperature
                t1 = t0 + 1 if t0 + 1 <= wh.max_temp else t0 - 1
                cases.append(("setpoint", lambda v: wh.async_set_target_temperature(v), lambda: wh.target_temperature, t0, t1,
                              spa.accessors["SetpointG"]))
            for p_ in fac.pumps:
                ms_ = [m_ for m_ in p_.modes if m_]
                a_ = spa.accessors[p_._user_demand["demand"]]
                if len(ms_) >= 2 and a_.read_write is not None:
                    v0 = a_.value
                    v1 = ms_[0] if v0 != ms_[0] else ms_[1]
                    cases.append((p_.key, lambda v, pp=p_: pp.async_set_mode(v), lambda aa=a_: aa.value, v0, v1, a_))
                    break
            for label, write, read, v0, v1, acc in cases:
                n0 = len(sim.commands)
                sim.hold_echo = True
                errs = []
                for v in (v1, v0):
                    try:
                        await asyncio.wait_for(write(v), 60)
                    except Exception as e:  # noqa
                        errs.append(f"{type(e).__name__}: {e}")
                    await asyncio.sleep(0.2)
                sim.hold_echo = False
                release_reports()
                await settle(2.0)
                sent = [c for c in sim.commands[n0:] if c.get("kind") == "set"]
                ctx.count("evaluations")
                ctx.hist("pending_report_scenarios", f"change-of-mind:{label}")
                sim_acc = sim.structure.accessors[acc.tag]
                if errs or len(sent) != 2 or sim_acc.raw_value != acc.raw_value or read() != v0:
                    ctx.violation(f"{prefix}:change-of-mind:{label}", {"kind": "pending-report", "snapshot": name, "item": label, "written": [str(v1), str(v0)]},
                                  {"set-value commands at the spa": 2, "spa and client read": str(v0)},
                                  {"errors": errs, "set-value commands at the spa": len(sent), "spa raw": sim_acc.raw_value, "client raw": acc.raw_value, "client reads": str(read())})
            # ---- (b) two writes of different items behind a slow exchange
            uds = [a for a in spa.accessors.values() if a.read_write is not None and a.type == "Enum" and a.items and len([x for x in a.items if x]) >= 2
                   and a.tag.startswith("Ud")]

            def overlap(a, b):
                return not (a.pos + a.length <= b.pos or b.pos + b.length <= a.pos)
            disjoint = next(((a, b) for i, a in enumerate(uds) for b in uds[i + 1:] if not overlap(a, b)), None)
            shared = next(((a, b) for i, a in enumerate(uds) for b in uds[i + 1:] if overlap(a, b)), None)
            for variant, ws in (("two-writes-behind-a-slow-exchange", disjoint), ("lost-update-in-shared-word", shared if with_shared_word else None)):
              if ws is not None:
                ws = list(ws)
                sim.hold_wc = True
                del sim.held[:]
                for _ in range(80):
                    if sim.held:
                        break
                    try:
                        gcfg.set_config_mode(gcfg.GeckoConfig.PING_FREQUENCY_IN_SECONDS == gcfg._GeckoActiveConfig.PING_FREQUENCY_IN_SECONDS)
                    except Exception:  # noqa
                        pass
                    await asyncio.sleep(0.1)
                if sim.held:
                    n0 = len(sim.commands)
                    wants = []
                    for a in ws:
                        labs = [x for x in a.items if x]
                        wants.append(labs[0] if a.value != labs[0] else labs[1])
                    ts = [asyncio.ensure_future(a.async_set_value(w)) for a, w in zip(ws, wants)]
                    await asyncio.sleep(1.0)
                    sim.hold_wc = False
                    live = [x for x in net.transports if not x.closed]
                    for hdl in sim.held:
                        if live:
                            net.push(live[-1], hdl.send_bytes)
                    del sim.held[:]
                    errs = []
                    for t in ts:
                        try:
                            await asyncio.wait_for(t, 120)
                        except Exception as e:  # noqa
                            errs.append(f"{type(e).__name__}: {e}")
                    await settle(2.0)
                    sent = [(c["pos"], len(c["data"])) for c in sim.commands[n0:] if c.get("kind") == "set"]
                    ctx.count("evaluations")
                    ctx.hist("pending_report_scenarios", variant)
                    got = [str(a.value) for a in ws]
                    if errs or sent != [(a.pos, a.length) for a in ws] or got != [str(w) for w in wants]:
                        ctx.violation(f"{prefix}:{variant}", {"kind": "pending-report", "snapshot": name, "items": [a.tag for a in ws]},
                                      {"writes at the spa (pos, length)": [[a.pos, a.length] for a in ws], "read back": [str(w) for w in wants]},
                                      {"errors": errs, "writes at the spa (pos, length)": [list(x) for x in sent], "read back": got})
                else:
                    sim.hold_wc = False
                    ctx.hist("pending_report_scenarios", "two-writes:poll-not-seen")
    vloop.run_virtual(body, seed=1, stable=True)
    return out


async def settle(t=1.0):
    await asyncio.sleep(t)


LONG_SESSION = 140      # pack commands in one session: the command sequence numbers (64 values) wrap more than twice


def run_snapshot(ctx, snapshot, lines, impl_ans, rng, long_session=True):
    """full stack on one shipped snapshot; issues commands, records emissions, runs the monitors"""
    name = os.path.basename(snapshot)
    out = {"connected": False, "long_session": long_session}

    async def body(loop):
        man, sim, net = connect_stack(loop, snapshot)
        async with man:
            for _ in range(600):
                await asyncio.sleep(0.1)
                if man.facade is not None:
                    break
            if man.facade is None:
                out["state"] = str(man.spa_state)
                return
            out["connected"] = True
            fac = man.facade
            spa = fac.spa
            await settle(2.0)
            cfg = f"{spa.pack_class.name.lower()}-cfg-{spa.config_version}"
            log = f"{spa.pack_class.name.lower()}-log-{spa.log_version}"
            modfor = lambda tag: log if tag in {a for a in spa.log_class.accessors} else cfg

            async def issue(label, coro_fn, predict_line, expect_check, acc=None):
                blk = spa.struct.status_block
                spa_before = bytes(sim.structure.status_block)
                n0 = len(sim.commands)
                bid = "b"
                lines.append(f"blk {bid} {blk.hex()}")
                impl_ans.append("ok")
                try:
                    await coro_fn()
                    err = None
                except Exception as e:  # noqa
                    err = f"{type(e).__name__}"
                await settle(1.5)
                new = sim.commands[n0:]
                obs = []
                for c in new:
                    if c["kind"] == "key":
                        obs.append(f"key:{c['key']}")
                    elif c["kind"] == "set":
                        obs.append(f"set:{c['pos']}:{len(c['data'])}:{int.from_bytes(c['data'], 'big')}")
                    else:
                        obs.append(f"setwc:{c['mode']}")
                    # well-formedness on the wire
                    if c["kind"] in ("key", "set"):
                        if not (192 <= c["seq"] <= 255):
                            ctx.violation(f"seq-range:{c['kind']}", {"snapshot": name, "command": label}, "SPACK sequence in 192..255", c["seq"])
                        if c["pack_type"] != spa.pack_type:
                            ctx.violation("pack-type", {"snapshot": name, "command": label}, spa.pack_type, c["pack_type"])
                    elif not (1 <= c["seq"] <= 191):
                        ctx.violation("seq-range:setwc", {"snapshot": name, "command": label}, "SETWC sequence in 1..191", c["seq"])
                # frame: a direct write changes the commanded item's bits at the spa and nothing else ("exactly the intended device write")
                if acc is not None and new and all(c["kind"] == "set" for c in new):
                    spa_after = bytes(sim.structure.status_block)
                    size = acc.length
                    allowed = ((1 << (8 * size)) - 1) if acc.bitpos is None else ((acc.bitmask << acc.bitpos) & ((1 << (8 * size)) - 1))
                    foreign = []
                    for i in range(min(len(spa_before), len(spa_after))):
                        d = spa_before[i] ^ spa_after[i]
                        if not d:
                            continue
                        if not (acc.pos <= i < acc.pos + size):
                            foreign.append((i, spa_before[i], spa_after[i]))
                        elif d & ~((allowed >> (8 * (acc.pos + size - 1 - i))) & 0xFF):      # big-endian field
                            foreign.append((i, spa_before[i], spa_after[i]))
                    if foreign:
                        others = sorted(t for t, a in spa.accessors.items() if a is not acc and any(a.pos <= i < a.pos + a.length for i, _, _ in foreign))[:6]
                        ctx.violation(f"foreign-bits-written:{label.split(':')[0]}", {"snapshot": name, "command": label},
                                      f"only {acc.tag} (byte {acc.pos}, length {acc.length}, bitpos {acc.bitpos}, mask {acc.bitmask}) changes at the spa",
                                      {"changed (byte, before, after)": foreign[:4], "items sharing those bytes": others})
                return new, (";".join(obs) if obs else "none"), err

            # ---- on/off devices: blowers, lights, eco mode
            async def panel(dev, on):
                """the device is switched AT THE SPA (top-side panel, a timeout): the spa changes its block and reports it"""
                acc = sim.structure.accessors[dev._state_sensor.accessor.tag]
                if acc.type == "Bool":
                    newv = bool(on)
                else:
                    newv = "OFF" if not on else [x for x in acc.items if x not in ("OFF", "")][0]
                import builtins
                real_print = builtins.print
                builtins.print = lambda *a, **k: None          # the simulator chats on stdout
                sim._send_structure_change = True
                try:
                    acc.value = newv
                finally:
                    sim._send_structure_change = False
                    builtins.print = real_print
                queued = list(sim._socket._send_handlers)
                sim._socket._send_handlers.clear()
                live = [t_ for t_ in net.transports if not t_.closed]
                for hdl, _dest in queued:
                    if live:
                        net.push(live[-1], hdl.send_bytes)
                await settle(1.0)

            switches = list(fac.blowers) + list(fac.lights) + ([fac.eco_mode] if fac.eco_mode is not None else [])
            for dev in switches:
                tag = dev._accessor.tag
                # facade commands, then the same with the device switched at the spa in between (a history on ONE switch object)
                for want in (True, False, False, True, True, ("panel", False), True, False, ("panel", True), False, ("panel", False), True):
                    if isinstance(want, tuple):
                        try:
                            await panel(dev, want[1])
                        except Exception as e:  # noqa
                            ctx.violation(f"panel-raises:{dev.key}", {"snapshot": name, "device": dev.key}, "the spa's own change is mirrored", f"{type(e).__name__}: {e}")
                            break
                        if dev.is_on != want[1]:
                            ctx.violation(f"panel-not-mirrored:{dev.key}", {"snapshot": name, "device": dev.key, "on": want[1]}, want[1], dev.is_on)
                            break
                        ctx.hist("commands", "switch:panel")
                        continue
                    was = dev.is_on
                    new, obs, err = await issue(f"{dev.key}:{'on' if want else 'off'}",
                                                dev.async_turn_on if want else dev.async_turn_off, None, None, acc=dev._accessor)
                    lines.append(f"switch {modfor(tag)} {tag} {dev._keypad_button} {1 if want else 0} b")
                    impl_ans.append(f"{obs} on={1 if was else 0}")
                    ctx.count("evaluations")
                    ctx.hist("commands", f"switch:{'noop' if was == want else ('key' if dev._keypad_button else 'write')}")
                    # direct monitors
                    if was == want and new:
                        ctx.violation(f"noop-sends:{dev.key}", {"snapshot": name, "device": dev.key, "want": want}, "nothing sent when already in the requested state", obs)
                    if was != want and len(new) != 1:
                        ctx.violation(f"count:{dev.key}", {"snapshot": name, "device": dev.key, "want": want}, "exactly one command", obs)
                    if dev.is_on != want:
                        ctx.violation(f"state-after-echo:{dev.key}", {"snapshot": name, "device": dev.key, "want": want}, want, dev.is_on)
                    if was != want:
                        out.setdefault("nontrivial", set()).add((type(dev).__name__, dev._keypad_button != 0, want))
            # ---- pumps: every mode of every pump
            # (two rounds: in the second every pump is commanded while its NEIGHBOURS in the shared byte / word are running)
            for p in list(fac.pumps) + list(fac.pumps):
                ud = p._user_demand["demand"]
                for mode in list(p.modes) + ["NOT-A-MODE"]:
                    if mode == "":
                        continue
                    new, obs, err = await issue(f"{p.key}:mode:{mode}", lambda m=mode, pp=p: pp.async_set_mode(m), None, None, acc=spa.accessors[ud])
                    lines.append(f"pump {modfor(ud)} {ud} {hx(mode.encode())} b")
                    impl_ans.append(obs)
                    ctx.count("evaluations")
                    ctx.hist("commands", "pump-mode" if mode in p.modes else "pump-bad-mode")
                    if mode in p.modes:
                        if len(new) != 1:
                            ctx.violation(f"count:{p.key}:mode", {"snapshot": name, "device": p.key, "mode": mode}, "exactly one command", obs)
                        got = spa.accessors[ud].value
                        if got != mode:
                            ctx.violation(f"demand-after-echo:{p.key}", {"snapshot": name, "device": p.key, "mode": mode}, mode, got)
                        out.setdefault("nontrivial", set()).add(("pump", ud, mode))
                    elif new:
                        ctx.violation(f"bad-mode-sends:{p.key}", {"snapshot": name, "device": p.key, "mode": mode}, "nothing sent", obs)
            # ---- temperature unit
            wh = fac.water_heater
            ua = wh._temperature_unit_accessor
            for u in ("F", "°F", "f", "C", "c", "°C", "x"):
                new, obs, err = await issue(f"unit:{u}", lambda uu=u: wh.async_set_temperature_unit(uu), None, None, acc=ua)
                lines.append(f"unit {modfor(ua.tag)} {ua.tag} {hx(u.encode())} b")
                impl_ans.append(obs)
                ctx.count("evaluations")
                ctx.hist("commands", "temp-unit")
                wantu = "F" if u in ("°F", "f", "F") else "C"
                if len(new) != 1 or ua.value != wantu:
                    ctx.violation("temp-unit", {"snapshot": name, "unit": u}, f"one write, unit reads {wantu}", f"{obs}; unit reads {ua.value}")
            # ---- target temperature (value conversion is C14's): one well-formed write that reads back
            for t in (rng.choice([20, 25.5, 30, 36.5, 38]) if ua.value == "C" else rng.choice([68, 80.5, 99, 101]),):
                n0 = len(sim.commands)
                try:
                    await wh.async_set_target_temperature(t)
                except Exception as e:  # noqa
                    ctx.violation("target-temp-raises", {"snapshot": name, "t": t}, "no exception", type(e).__name__)
                await settle(1.5)
                ctx.count("evaluations")
                ctx.hist("commands", "target-temp")
                if len(sim.commands) - n0 != 1 or abs(wh.target_temperature - t) > 0.11:
                    ctx.violation("target-temp", {"snapshot": name, "t": t}, "one write, reads back within one device step", [len(sim.commands) - n0, wh.target_temperature])
            # ---- watercare
            wc = fac.water_care
            for label in list(wc.modes) + ["Nonsense"]:
                new, obs, err = await issue(f"wc:{label}", lambda l=label: wc.async_set_mode(l), None, None)
                lines.append(f"wc {hx(label.encode())}")
                impl_ans.append(obs if err is None else "err:E_VALUE")
                ctx.count("evaluations")
                ctx.hist("commands", "watercare")
                if label in wc.modes and (len(new) != 1 or wc.mode != wc.modes.index(label) or sim.wc_mode != wc.modes.index(label)):
                    ctx.violation("watercare", {"snapshot": name, "label": label}, "one SETWC, mode stored on both sides", [obs, wc.mode, sim.wc_mode])
            # ---- a watercare command issued while the facade's own watercare poll is in flight (its answer, describing the mode
            #      BEFORE the command, arrives after the command was issued): the client must still read back the requested mode
            import geckolib.config as gcfg
            for trial in range(2):
                cur = sim.wc_mode
                want = (cur + 1 + trial) % len(wc.modes)
                sim.hold_wc = True
                del sim.held[:]
                for _ in range(60):
                    if sim.held:
                        break
                    try:
                        gcfg.set_config_mode(gcfg.GeckoConfig.PING_FREQUENCY_IN_SECONDS == gcfg._GeckoActiveConfig.PING_FREQUENCY_IN_SECONDS)   # wakes the facade update loop, same table
                    except Exception:  # noqa
                        pass
                    await asyncio.sleep(0.1)
                if not sim.held:
                    sim.hold_wc = False
                    ctx.hist("commands", "watercare-during-poll:poll-not-seen")
                    break
                n0 = len(sim.commands)
                t = asyncio.ensure_future(wc.async_set_mode(wc.modes[want]))
                await asyncio.sleep(0.3)
                sim.hold_wc = False
                live = [x for x in net.transports if not x.closed]
                for hdl in sim.held:
                    if live:
                        net.push(live[-1], hdl.send_bytes)
                del sim.held[:]
                try:
                    await asyncio.wait_for(t, 30)
                    err = None
                except Exception as e:  # noqa
                    err = type(e).__name__
                await settle(1.5)
                ctx.count("evaluations")
                ctx.hist("commands", "watercare-during-poll")
                sent = [c for c in sim.commands[n0:] if c.get("kind") == "setwc"]
                if err is not None or len(sent) != 1 or sim.wc_mode != want or wc.mode != want:
                    ctx.violation("watercare-during-poll", {"snapshot": name, "from": cur, "to": want},
                                  f"one SETWC; spa and client both read mode {want} afterwards",
                                  {"error": err, "setwc_sent": len(sent), "spa_mode": sim.wc_mode, "client_mode": wc.mode})
                    break
            # ---- a command issued while ANOTHER exchange holds the connection for longer than a request timeout (the spa is slow
            #      to answer the facade's watercare poll): the command waits for the lock, then goes out ONCE and is applied
            if switches or fac.pumps:
                sim.hold_wc = True
                del sim.held[:]
                for _ in range(80):
                    if sim.held:
                        break
                    try:
                        gcfg.set_config_mode(gcfg.GeckoConfig.PING_FREQUENCY_IN_SECONDS == gcfg._GeckoActiveConfig.PING_FREQUENCY_IN_SECONDS)
                    except Exception:  # noqa
                        pass
                    await asyncio.sleep(0.1)
                if sim.held:
                    n0 = len(sim.commands)
                    if fac.pumps:
                        p0 = fac.pumps[0]
                        ud0 = spa.accessors[p0._user_demand["demand"]]
                        ms0 = [m_ for m_ in p0.modes if m_]
                        want0 = ms0[0] if ud0.value != ms0[0] else ms0[1]
                        t = asyncio.ensure_future(p0.async_set_mode(want0))
                        read0 = lambda: ud0.value
                    else:
                        d0 = switches[0]
                        want0 = not d0.is_on
                        t = asyncio.ensure_future(d0.async_turn_on() if want0 else d0.async_turn_off())
                        read0 = lambda: d0.is_on
                    await asyncio.sleep(gcfg.GeckoConfig.PROTOCOL_TIMEOUT_IN_SECONDS + 1.5)       # the poll's first attempt has timed out by now
                    sim.hold_wc = False
                    live = [x for x in net.transports if not x.closed]
                    for hdl in sim.held:
                        if live:
                            net.push(live[-1], hdl.send_bytes)
                    del sim.held[:]
                    try:
                        await asyncio.wait_for(t, 120)
                        err = None
                    except Exception as e:  # noqa
                        err = type(e).__name__
                    await settle(2.0)
                    ctx.count("evaluations")
                    ctx.hist("commands", "command-behind-slow-exchange")
                    sent = [c for c in sim.commands[n0:] if c.get("kind") in ("key", "set")]
                    if err is not None or len(sent) != 1 or read0() != want0:
                        ctx.violation("command-behind-slow-exchange", {"snapshot": name, "want": str(want0)},
                                      "exactly one command datagram once the connection is free; the requested value reads back",
                                      {"error": err, "command_datagrams": len(sent), "reads_back": str(read0())})
                else:
                    sim.hold_wc = False
                    ctx.hist("commands", "command-behind-slow-exchange:poll-not-seen")
            # ---- two commands issued BACK TO BACK through the facade's plain (non-awaitable) entry points - an automation that
            #      switches two devices in one go, a user tapping two tiles: each is one command, both are applied
            plain = []
            for d_ in switches:
                plain.append((d_.key, (lambda dd=d_: (dd.turn_off if dd.is_on else dd.turn_on)()), (lambda dd=d_: dd.is_on), None))
            for p_ in fac.pumps:
                ms_ = [m_ for m_ in p_.modes if m_]
                if len(ms_) >= 2:
                    a_ = spa.accessors[p_._user_demand["demand"]]
                    plain.append((p_.key, None, (lambda aa=a_: aa.value), (p_, ms_, a_)))
            pairs_ = [(plain[i], plain[j]) for i in range(len(plain)) for j in range(len(plain)) if i != j][:6]
            for one, two in pairs_:
                n0 = len(sim.commands)
                wants, errs = [], []
                for key_, fn_, read_, pm_ in (one, two):
                    try:
                        if pm_ is not None:
                            pp_, ms_, aa_ = pm_
                            w_ = ms_[0] if aa_.value != ms_[0] else ms_[1]
                            pp_.set_mode(w_)
                        else:
                            w_ = not read_()
                            fn_()
                        wants.append(w_)
                    except Exception as e:  # noqa
                        errs.append(f"{key_}: {type(e).__name__}: {e}")
                        wants.append(None)
                await settle(4.0)
                ctx.count("evaluations")
                ctx.hist("commands", "two-back-to-back")
                sent = [c for c in sim.commands[n0:] if c.get("kind") in ("key", "set")]
                got = [str(one[2]()), str(two[2]())]
                if errs or len(sent) != 2 or got != [str(w) for w in wants]:
                    ctx.violation("two-commands-back-to-back", {"snapshot": name, "devices": [one[0], two[0]]},
                                  {"command_datagrams": 2, "read_back": [str(w) for w in wants]},
                                  {"errors": errs, "command_datagrams": len(sent), "read_back": got})
                    break
            # ---- a LONG session on the one connection: more than two whole cycles of the command sequence numbers (64 values),
            #      every command still one well-formed in-range SPACK that the spa applies and echoes
            packs = lambda: [c for c in sim.commands if c["kind"] in ("key", "set")]
            pumps = [p for p in fac.pumps if len([m for m in p.modes if m]) >= 2]
            if out.get("long_session", True) and (pumps or switches):
                k = 0
                while len(packs()) < LONG_SESSION and k < LONG_SESSION + 20:
                    n0 = len(packs())
                    if pumps:
                        p = pumps[k % len(pumps)]
                        ms = [m for m in p.modes if m]
                        ud = p._user_demand["demand"]
                        mode = ms[0] if spa.accessors[ud].value != ms[0] else ms[1]
                        new, obs, err = await issue(f"long:{k}:{p.key}:mode:{mode}", lambda m=mode, pp=p: pp.async_set_mode(m), None, None, acc=spa.accessors[ud])
                        ok = len(new) == 1 and spa.accessors[ud].value == mode
                    else:
                        dev = switches[k % len(switches)]
                        want = not dev.is_on
                        new, obs, err = await issue(f"long:{k}:{dev.key}:{'on' if want else 'off'}",
                                                    dev.async_turn_on if want else dev.async_turn_off, None, None, acc=dev._accessor)
                        ok = len(new) == 1 and dev.is_on == want
                    ctx.count("evaluations")
                    ctx.hist("commands", "long-session")
                    if not ok:
                        ctx.violation("long-session:command-not-applied", {"snapshot": name, "nth_pack_command": n0 + 1},
                                      "one command, applied by the spa and read back", {"sent": obs, "error": err})
                        break
                    k += 1
                out["pack_commands"] = len(packs())
                seqs = [c["seq"] for c in packs()]
                out["seq_values"] = len(set(seqs))
            # ---- the mirror equals the spa block after the whole command sequence
            await settle(2.0)
            if spa.struct.status_block != sim.structure.status_block:
                diff = [i for i in range(1024) if spa.struct.status_block[i] != sim.structure.status_block[i]][:8]
                ctx.violation("mirror-out-of-sync", {"snapshot": name}, "client mirror equals the spa block after the command sequence", diff)
    vloop.run_virtual(body, seed=rng.randrange(1 << 30), stable=True)
    return out


def threaded_twins(ctx, lines, impl_ans, rng):
    """GeckoSwitch.turn_on/off and GeckoPump.set_mode (blocking twins) on a stub spa: emissions must equal the awaitable ones"""
    import importlib
    from geckolib.automation.switch import GeckoSwitch
    from geckolib.automation.pump import GeckoPump
    from geckolib.driver.spastruct import GeckoStructure
    from geckolib.const import GeckoConstants
    emitted = []

    class Spa:
        def __init__(self):
            self.struct = GeckoStructure(lambda p, l, v: emitted.append(f"set:{p}:{l}:{v}"))
            self.accessors = {}

        def press(self, k):
            emitted.append(f"key:{k}")

    class Fac:
        unique_id = "u"
        name = "n"

        def __init__(self, spa):
            self._spa = spa
            self.spa = spa
    spa = Spa()
    lm = importlib.import_module("geckolib.driver.packs.inyt-log-50")
    spa.accessors = lm.GeckoLogStruct(spa.struct).accessors
    spa.struct.accessors = spa.accessors
    fac = Fac(spa)
    for key, props in list(GeckoConstants.DEVICES.items()) + [("EconActive", ("Economy Mode", 0, "EconActive", "SWITCH"))]:
        if props[2] not in spa.accessors:
            continue
        sw = GeckoSwitch(fac, key, props)
        for _ in range(3):
            blk = bytes(rng.randrange(256) for _ in range(1024))
            spa.struct.set_status_block(blk)
            for want in (True, False):
                emitted.clear()
                try:
                    (sw.turn_on if want else sw.turn_off)()
                except Exception as e:  # noqa
                    emitted.append(f"raised:{type(e).__name__}")
                lines.append(f"blk t {blk.hex()}")
                impl_ans.append("ok")
                lines.append(f"switch inyt-log-50 {props[2]} {props[1]} {1 if want else 0} t")
                impl_ans.append(f"{';'.join(emitted) if emitted else 'none'} on={1 if sw.is_on else 0}")
                ctx.count("evaluations")
                ctx.hist("commands", "threaded-switch")


def threaded_long_session(ctx):
    """the BLOCKING client over a long session: a real GeckoSpa (its own sequence counters, its real `_on_set_value` / `press`), the
    real pump and switch classes, a model spa that decodes each queued SPACK with the real decoder, stores the write and echoes it.
    More than two whole cycles of the command numbers; every command one well-formed in-range SPACK that is applied and read back"""
    import importlib
    from geckolib.spa import GeckoSpa
    from geckolib.const import GeckoConstants
    from geckolib.automation.pump import GeckoPump
    from geckolib.automation.switch import GeckoSwitch
    from geckolib.driver.protocol.packcommand import GeckoPackCommandProtocolHandler
    from props.c16 import _Desc, _seq_byte
    spa = GeckoSpa(_Desc())
    spa.pack_type, spa.config_version, spa.log_version = 6, 50, 50
    lm = importlib.import_module("geckolib.driver.packs.inyt-log-50")
    cm = importlib.import_module("geckolib.driver.packs.inyt-cfg-50")
    spa.struct.build_accessors(cm.GeckoConfigStruct(spa.struct), lm.GeckoLogStruct(spa.struct))
    spa.struct.set_status_block(bytes(1024))

    class Fac:
        unique_id, name = "u", "n"

        def __init__(self, spa_):
            self._spa = self.spa = spa_
    fac = Fac(spa)
    pump = GeckoPump(fac, "P1", GeckoConstants.DEVICES["P1"], {"demand": spa.accessors["UdP1"].tag, "options": spa.accessors["UdP1"].items})
    eco = GeckoSwitch(fac, "ECON", ("Economy Mode", 0, "EconActive", "SWITCH")) if "EconActive" in spa.accessors else None
    modes = [m for m in pump.modes if m][:2]
    ud = spa.accessors[pump._user_demand["demand"]]
    taken = [0]

    def queued():
        """the datagrams the client queued since the last look (the send queue is the client's public hand-over to its engine)"""
        hs = spa._send_handlers[taken[0]:]
        taken[0] = len(spa._send_handlers)
        return [h.send_bytes for h, _ in hs]
    n_cmd = 0
    for k in range(LONG_SESSION + 10):
        use_eco = eco is not None and k % 5 == 4
        label = f"{'eco' if use_eco else 'pump'}:{k}"
        try:
            if use_eco:
                want = not eco.is_on
                (eco.turn_on if want else eco.turn_off)()
            else:
                want = modes[0] if ud.value != modes[0] else modes[1]
                pump.set_mode(want)
            err = None
        except Exception as e:  # noqa
            err = f"{type(e).__name__}: {e}"
        sent = queued()
        ctx.count("evaluations")
        ctx.hist("commands", "threaded-long-session")
        inp = {"client": "threaded", "nth_command": n_cmd + 1, "command": label}
        if err is not None or len(sent) != 1:
            ctx.violation("threaded-long-session:count", inp, "exactly one command datagram, no exception", {"error": err, "datagrams": len(sent)})
            break
        n_cmd += 1
        verb, seq = _seq_byte(sent[0])
        if verb != "SPACK" or not (192 <= seq <= 255):
            ctx.violation("threaded-long-session:seq-range", inp, "an SPACK with a sequence number in 192..255", [verb, seq])
            break
        i = sent[0].find(b"<DATAS>")
        content = sent[0][i + 7:sent[0].find(b"</DATAS>")]
        d = GeckoPackCommandProtocolHandler()
        d.handle(content, ("10.0.0.1", 10022))
        if d.pack_type != spa.pack_type:
            ctx.violation("threaded-long-session:pack-type", inp, spa.pack_type, d.pack_type)
            break
        if d.is_set_value:
            spa.struct.replace_status_block_segment(d.position, d.new_data)          # the spa stores the write and reports it
        elif d.is_key_press and use_eco:
            acc = spa.accessors["EconActive"]
            blk = bytearray(spa.struct.status_block)
            blk[acc.pos] ^= (1 << acc.bitpos) if acc.bitpos is not None else 1
            spa.struct.replace_status_block_segment(acc.pos, bytes(blk[acc.pos:acc.pos + 1]))
        got = eco.is_on if use_eco else ud.value
        if got != want:
            ctx.violation("threaded-long-session:not-applied", inp, f"reads back {want!r} after the spa's echo", repr(got))
            break
    ctx.cov["threaded_long_session_commands"] = n_cmd
    # ---- the blocking watercare command: one SETWC in the protocol range carrying the requested mode, the local mode follows
    from geckolib.automation.watercare import GeckoWaterCare
    wc = GeckoWaterCare(fac)
    queued()
    for label in list(wc.modes) + [2, 0]:
        want = wc.modes.index(label) if isinstance(label, str) else label
        try:
            wc.set_mode(label)
            err = None
        except Exception as e:  # noqa
            err = f"{type(e).__name__}: {e}"
        sent = queued()
        ctx.count("evaluations")
        ctx.hist("commands", "threaded-watercare")
        inp = {"client": "threaded", "command": f"watercare:{label}"}
        ok = err is None and len(sent) == 1
        if ok:
            verb, seq = _seq_byte(sent[0])
            i = sent[0].find(b"<DATAS>")
            content = sent[0][i + 7:sent[0].find(b"</DATAS>")]
            ok = verb == "SETWC" and 1 <= seq <= 191 and len(content) == 7 and content[6] == want and wc.mode == want
        if not ok:
            ctx.violation("threaded-watercare", inp, f"one SETWC (sequence in 1..191) carrying mode {want}; the client's mode reads {want}",
                          {"error": err, "datagrams": [d[d.find(b'<DATAS>') + 7:d.find(b'</DATAS>')].hex() for d in sent], "client_mode": wc.mode})
            break


def check_blocking_clients(ctx, only=None):
    """two BLOCKING clients in one process (real start_connect handshakes, stepped; sequential and overlapping start-up): a command
    through one client's item is ONE set-value at that client's own spa, changes the item there, and nothing at the other spa"""
    import bsessions
    s1 = str(REPO / "tests" / "snapshots" / "inYT-Pump1Hi-2020-12-13 11_19_35.snapshot")
    s2 = str(REPO / "tests" / "snapshots" / "inYT-Pump2Hi-2020-12-13 11_19_35.snapshot")
    for overlapping in (False, True):
        if only is not None and only != overlapping:
            continue
        res, a, b = bsessions.two_clients(s1, s2, overlapping)
        ctx.count("evaluations")
        ctx.hist("blocking_clients", "overlapping" if overlapping else "sequential")
        probs = bsessions.judge(res)
        for who, sess in (("a", a), ("b", b)):
            n = len([c for c in sess.sim.commands if c.get("kind") == "set"])
            if not probs and res.get(f"{who}_write") is not None and n != 1:
                probs.append((f"{who}:command-count", {"set-value commands at this client's spa": n}))
        for what, detail in probs:
            ctx.violation(f"blocking-clients:{'overlapping' if overlapping else 'sequential'}:{what}", {"kind": "blocking-clients", "overlapping": overlapping},
                          "a command through a client's item is one set-value at that client's own spa, applied there, nothing elsewhere", detail)
            break


def run(ctx):
    st = translate.run(["AccessorArith", "Packs", "Pinned", "PartialFacts", "SeqCounter", "WatercareSteps", "Skeletons"])
    ctx.cov["translator"] = st
    for k, v in st.items():
        if v != "ok":
            ctx.obligation_broken(f"translate:{k}", v)
    ctx.lean_obligations("GeckoModel.Properties.C13")
    rng = ctx.rng
    snaps = sorted(glob.glob(str(REPO / "tests" / "snapshots" / "*.snapshot")))
    chosen = [s for s in snaps if os.path.basename(s).startswith(("default", "inYT-Pump1Hi", "inYJ-All", "inYT-EconomyModeActive"))]
    if not ctx.quick:
        chosen = snaps
    lines, impl_ans = [], []
    try:
        check_blocking_clients(ctx)
    except Exception as e:  # noqa
        ctx.obligation_broken("harness:blocking-clients", f"{type(e).__name__}: {e}")
    for sn_ in [s for s in chosen if os.path.basename(s).startswith(("default", "inYT-Pump1Hi"))] or chosen[:1]:
        try:
            pending_report_scenarios(ctx, sn_, "pending-report")
        except Exception as e:  # noqa
            ctx.violation(f"pending-report:raised:{os.path.basename(sn_)}", {"kind": "pending-report", "snapshot": os.path.basename(sn_)}, "the scenario runs", f"{type(e).__name__}: {e}")
    nontrivial = set()
    built = 0
    longest = 0
    for n_, s in enumerate(chosen):
        try:
            # quick: the long session on the first two snapshots; thorough: on every one
            out = run_snapshot(ctx, s, lines, impl_ans, rng, long_session=(not ctx.quick) or n_ < 2)
            longest = max(longest, out.get("pack_commands", 0))
        except Exception as e:  # noqa
            ctx.violation(f"stack-raised:{os.path.basename(s)}", {"snapshot": os.path.basename(s)}, "the stack runs", f"{type(e).__name__}: {e}")
            continue
        if out.get("connected"):
            built += 1
            nontrivial |= out.get("nontrivial", set())
        else:
            ctx.hist("not_connected", os.path.basename(s).split("-")[0])
    threaded_twins(ctx, lines, impl_ans, rng)
    try:
        threaded_long_session(ctx)
    except Exception as e:  # noqa
        ctx.violation("threaded-long-session:raised", {"client": "threaded"}, "the session runs", f"{type(e).__name__}: {e}")
    try:
        model = Driver("Driver/C13.lean").run(lines)
    except DriverFailure as e:
        ctx.obligation_broken("driver:C13", e)
        model = None
    if model is not None:
        nd = 0
        for i, (mo, im) in enumerate(zip(model, impl_ans)):
            if mo != im:
                nd += 1
                if nd <= 3:
                    ctx.obligation_broken("correspondence:command-model-vs-implementation", {"op": lines[i][:120], "model": mo, "impl": im})
        ctx.cov["correspondence_ops"] = len(lines)
        ctx.cov["correspondence_disagreements"] = nd
    for i, l in enumerate(lines):
        if not l.startswith("blk") and impl_ans[i] not in ("none",) and not impl_ans[i].startswith("none"):
            ctx.sample({"op": l[:100], "impl": impl_ans[i]})
    ctx.cov["longest_session_pack_commands"] = longest
    ctx.cov["snapshots_connected"] = built
    ctx.cov["snapshots_tried"] = len(chosen)
    ctx.cov["distinct_nontrivial"] = len(nontrivial)
    ctx.cov["rule"] = ("for each chosen shipped snapshot (quick: 4, thorough: all 34) the full real stack is connected to the model spa; every blower / light / eco switch gets "
                       "on,off,off,on,on; every pump every mode + an unknown one; the unit every spelling; a target temperature; every watercare mode + an unknown label; "
                       "threaded twins on a stub spa over random blocks. non-trivial = state-changing command; distinct by (device class or demand item, path, argument)")
    ctx.assumptions += ["the spa stores a set-value and echoes it; a key press toggles the on/off state item of the device behind the key (the property's stated assumption)",
                        "snapshots whose facade cannot be built (C11's finding) are skipped here"]


def replay(inp):
    if inp.get("kind") == "blocking-clients":
        from common import Ctx
        c = Ctx("C13", "quick", 0)
        check_blocking_clients(c, only=inp["overlapping"])
        return bool(c.violations), c.violations[0]["observed"] if c.violations else "each command reached its own spa once"
    if inp.get("kind") == "pending-report":
        from common import Ctx
        c = Ctx("C13", "quick", 0)
        sn = [s for s in glob.glob(str(REPO / "tests" / "snapshots" / "*.snapshot")) if os.path.basename(s) == inp["snapshot"]][0]
        pending_report_scenarios(c, sn, "pending-report")
        return bool(c.violations), c.violations[0]["observed"] if c.violations else "both scenarios hold"
    import random
    from common import Ctx
    ctx = Ctx("C13", "quick", 0)
    snap = str(REPO / "tests" / "snapshots" / inp["snapshot"])
    run_snapshot(ctx, snap, [], [], random.Random(0))
    return bool(ctx.violations), [v["key"] for v in ctx.violations][:5]
