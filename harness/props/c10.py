"""C10 - reset or exit at any point leaks no endpoint/task and has no late effects."""
import asyncio
import collections

import fakenet
import translate
import vloop
from common import Driver, DriverFailure, REPO

LEVEL = "proof"
MANIFEST = dict(
    text="The quantifier (every await point of discovery, of each handshake step, and steady state) is a finite table regenerated from the source together with the "
         "teardown facts (what disconnect / discover / __aexit__ / facade.disconnect / _connect / the sequence pump do) and the step lists of the teardown procedures; "
         "the Lean theorems are kernel evaluations over the WHOLE table: the FULL statement no_leak_at_any_point (at every point a reset or a context exit leaves no "
         "endpoint open, no task alive, no observer registered, and the pump alive after a reset - it holds since the three fix: commits 54b7766 / a588de4 / 0bd0a89; "
         "each_fix_is_needed keeps the witnesses), error_state_reset_is_clean (a reset issued from inside the spa's own ping-loop task, client handler yielding or not), "
         "discover_finally_survives_second_cancel, bounded_over_cycles. Tie: translator for points, facts and step lists + correspondence at EVERY reachable await "
         "point of the real stack (manager + locator + spa + facade on the virtual loop against the real simulator): the harness injects async_reset() / context exit "
         "exactly when the pump task's coroutine stack is at that point - exits with a client handler that returns at once AND with one that really suspends - lets the "
         "loop settle, and compares the ledger (transports never closed, tasks alive at the instant the exit returns and later, observers left, pump alive, handler "
         "activity after the exit, callbacks on late datagrams) with the model's prediction. The crash-point table has one entry per suspension point of the regenerated skeletons of _connect and discover (crash_points_cover_every_suspension: two independent translators agree). Also: two commands of each kind in flight when the connection is reset / the context exited; task_registry_tracks_every_task. discover_releases_endpoint_on_every_exit and awaits_inside_finally_are_the_finished_announcements (all 58 coroutines). Prompt termination (2 s after every reset) and a reset issued by the client from inside its RF-error handler. Session 5: cancellation_ends_every_coroutine / cancellation_propagates - Model/Cancel.lean gives the skeletons Python's rule for which handler gets a CancelledError (first in source order that is bare / BaseException / CancelledError) and an inductive relation Cancelled sk o (a cancellation delivered at one of the awaits of sk makes it end with o); cancelOuts_sound proves the executable analysis, and all 58 regenerated coroutines end by the exception under every cancellation. Crash point added: a reset from another task while a consumer's callback (the client's handler of an RF error) is suspended. Round 14: a reset that is itself interrupted (time-limited, slow teardown handler), then a complete reset / the exit. Round 15: the host refuses the connection's UDP endpoint once / twice (OSError from create_datagram_endpoint in the virtual loop) and the reset comes before, in or after the refusal.",
    note="partial: 'closed' = close() called on the transport object the loop handed out; await points inside the standard library are collapsed to the geckolib await that "
         "contains them; error-path await points of _connect that a healthy handshake never reaches are predicted by the model but not exercised; asyncio delivering a "
         "pending cancellation at the next suspending await is assumed.",
    technique="Lean 4 kernel evaluation (decide) over the source-generated table of suspension points and teardown facts + crash-point injection on the real stack",
    design="5/C10")

IDENT = "SPA01:02:03:04:05:06"
SNAP = REPO / "tests" / "snapshots" / "default.snapshot"


def stack_sig(task):
    out = []
    c = task.get_coro()
    n = 0
    while c is not None and n < 40:
        n += 1
        f = getattr(c, "cr_frame", None) or getattr(c, "gi_frame", None)
        if f is not None and "geckolib" in f.f_code.co_filename:
            out.append((f.f_code.co_name, f.f_lineno))
        c = getattr(c, "cr_await", None) or getattr(c, "gi_yieldfrom", None)
    return tuple(out)


def _pump_sleep_lines():
    import ast
    src = (REPO / "src" / "geckolib" / "async_spa_manager.py").read_text()
    for n in ast.walk(ast.parse(src)):
        if isinstance(n, ast.AsyncFunctionDef) and n.name == "_sequence_pump":
            return {a.lineno for a in ast.walk(n) if isinstance(a, ast.Await) and "asyncio.sleep" in ast.unparse(a)}
    return set()


PUMP_SLEEP_LINES = _pump_sleep_lines()


def to_point(sig, connected):
    """runtime coroutine stack -> generated crash point (procedure, line)"""
    for name in ("_connect", "discover"):
        hit = [ln for fn, ln in sig if fn == name]
        if hit:
            return (name, hit[0])
    hit = [ln for fn, ln in sig if fn == "_sequence_pump"]
    if hit and len(sig) == 1 and hit[0] in PUMP_SLEEP_LINES:
        return ("pump-connected" if connected else "pump-idle", hit[0])
    return None


def explore(inject_at=None, kind="reset", horizon=25.0, cycles=0, slow=False):
    """slow = the client's event handler really suspends: 0.3 s on every *_FINISHED / teardown / disconnected event, one loop
    turn on every other event (only with kind='exit': the reset of this rig is run synchronously)"""
    from geckolib import GeckoAsyncSpaMan
    res = {"points": []}

    async def body(loop):
        active = {"n": 0, "log": []}

        class Man(GeckoAsyncSpaMan):
            async def handle_event(self, event, **kw):
                if not slow:
                    return
                name = str(event).split(".")[-1]
                active["n"] += 1
                active["log"].append((loop.time(), "enter", name))
                try:
                    await asyncio.sleep(0.3 if (name.endswith("FINISHED") or "TEARDOWN" in name or "DISCONNECTED" in name) else 0)
                finally:
                    active["n"] -= 1
                    active["log"].append((loop.time(), "leave", name))
        sim = fakenet.make_sim(SNAP)
        net = fakenet.Network(loop, sim)
        loop.network = net
        m = Man("uuid-1", spa_identifier=IDENT, spa_address="10.0.0.9", spa_name="Spa")
        await m.__aenter__()
        pump = [t for t in asyncio.all_tasks() if t.get_name() == "SPAMAN:Sequence Pump"][0]
        st = {"injected": False, "task": None}
        callbacks = []

        def client_cb(*a):
            callbacks.append(loop.time())

        def hook():
            pt = to_point(stack_sig(pump), m.facade is not None)
            if pt and pt not in res["points"]:
                res["points"].append(pt)
            if inject_at is not None and not st["injected"] and pt == inject_at:
                st["injected"] = True
                res["t_inject"] = loop.time()
                # a client that observes everything it can (as an automation system would)
                old = {"facade": m.facade, "spa": m._spa, "transports": list(loop.transports)}
                if m.facade is not None:
                    m.facade.watch(client_cb)
                    for d in m.facade.all_automation_devices:
                        if d is not None:
                            d.watch(client_cb)
                if m._spa is not None:
                    m._spa.watch(client_cb)
                    for a in list(m._spa.struct.accessors.values())[:50]:
                        a.watch(client_cb)
                    old["accessors"] = list(m._spa.struct.accessors.values())
                st["old"] = old
                if kind == "reset":
                    # run the reset to completion right here, between two loop iterations, so that it lands exactly at this await point
                    # (it never really suspends: the client handler of this rig returns at once)
                    # (as the first step of a real task, run right now: code that asks for the current task must find one; with
                    #  the client handler of this rig it completes in that one step - if a changed tree makes it suspend, the
                    #  task simply goes on under the loop and is awaited below)
                    task = asyncio.tasks._PyTask(m.async_reset(), loop=loop)
                    h = loop._ready.pop()
                    h._run()
                    st["task"] = task
                    res["reset_suspended"] = not task.done()
                else:
                    st["task"] = loop.create_task(m.__aexit__(None, None, None))

                    def at_return(_t):
                        # the instant __aexit__ returns: nothing of the library may still be running
                        res["t_exit_return"] = loop.time()
                        res["tasks_at_exit_return"] = sorted(t.get_name() for t in asyncio.all_tasks()
                                                             if not t.done() and ":" in t.get_name() and t is not st["task"])
                        res["handlers_running_at_exit_return"] = [n for (_, what, n) in active["log"] if what == "enter"][-active["n"]:] if active["n"] else []
                    st["task"].add_done_callback(at_return)
        loop.on_iter = hook
        while loop.time() < horizon:
            await asyncio.sleep(0.05)
            if st["injected"]:
                if st["task"].done():
                    break
            if inject_at is None and m.facade is not None and cycles == 0 and loop.time() > 6:
                break
        loop.on_iter = None
        if cycles:
            counts = []
            for _ in range(cycles):
                await m.async_reset()
                for _ in range(400):
                    await asyncio.sleep(0.1)
                    if m.facade is not None:
                        break
                await asyncio.sleep(1.0)
                counts.append((len([t for t in loop.transports if not t.closed]),
                               len([t for t in asyncio.all_tasks() if not t.done()])))
            res["cycle_counts"] = counts
        if kind == "reset" and st["injected"]:
            await asyncio.sleep(15)
            old = st["old"]
            n_cb = len(callbacks)
            # late datagrams to every endpoint of the abandoned attempt, and timers: keep the spa talking
            from geckolib.driver import GeckoPartialStatusBlockProtocolHandler
            import rig
            for tr in old["transports"]:
                for i in range(3):
                    content = b"STATP\x01" + bytes([1, 10 + i, 0x55, 0xAA + i])
                    tr.deliver(rig.frame(IDENT.encode(), m._client_id, content), fakenet.SIM_ADDR)
            await asyncio.sleep(3)
            res["late_callbacks"] = len([c for c in callbacks[n_cb:]])
            res["pump_alive"] = not pump.done()
            res["pump_exc"] = repr(pump.exception()) if pump.done() and not pump.cancelled() else None
            res["state"] = str(m.spa_state)
            cur = getattr(m._spa, "_transport", None) if m._spa else None
            res["endpoint_open"] = [t.id for t in old["transports"] if not t.closed and t is not cur] + \
                [t.id for t in loop.transports if t not in old["transports"] and not t.closed and t is not cur and m._spa is None]
            alive = collections.Counter(t.get_name().split(":")[0] for t in asyncio.all_tasks() if not t.done() and ":" in t.get_name())
            expect = {"SPA": 7, "FACADE": 1} if m.facade is not None else ({"SPA": 7} if m._spa is not None else {})
            res["tasks_leaked"] = {k: alive.get(k, 0) - expect.get(k, 0) for k in ("SPA", "FACADE", "LOC") if alive.get(k, 0) > expect.get(k, 0)}
            obs = 0
            if old.get("facade") is not None:
                obs += sum(len(d._observers) for d in old["facade"].all_automation_devices if d is not None)
            if old.get("spa") is not None:
                obs += len(old["spa"]._observers)
            res["observers_left"] = obs
        if not (kind == "exit" and st["injected"]):
            try:
                await m.__aexit__(None, None, None)
            except BaseException as e:  # noqa
                res["exit_exc"] = repr(e)
        await asyncio.sleep(0.5)
        if res.get("t_exit_return") is not None:
            res["handler_activity_after_exit"] = [(round(t - res["t_exit_return"], 3), what, n) for (t, what, n) in active["log"] if t > res["t_exit_return"]]
        res["open_at_end"] = [t.id for t in loop.transports if not t.closed]
        res["tasks_at_end"] = [t.get_name() for t in asyncio.all_tasks() if t is not asyncio.current_task() and not t.done()]
        res["pump_done_at_end"] = pump.done()
    vloop.run_virtual(body, seed=1, stable=True)
    return res


ERROR_SCENARIOS = {
    # name: (phases, the error state the manager is expected to be in when the reset comes)
    "long-blackout": ([(20, "healthy"), (270, "blackout")], "ERROR_*"),
    "rf-fault": ([(20, "healthy"), (70, "rferr")], "ERROR_RF_FAULT"),
    "needs-attention": ([(0.65, "healthy"), (70, "blackout")], "ERROR_NEEDS_ATTENTION"),
}


def explore_error(scenario, origin, yielding, settle=150.0):
    """a reset in an error state on the REAL stack: `origin` = 'self' (the manager's own reset, issued from inside the spa's ping-loop
    task when a ping is answered again) or 'user' (async_reset from a client task while the network is still down);
    `yielding` = the client's event handler really suspends.  The ledger is taken after the network has been healthy for `settle` s."""
    from geckolib import GeckoAsyncSpaMan
    phases, want = ERROR_SCENARIOS[scenario]
    res = {"resets": []}

    async def body(loop):
        callbacks = []

        def client_cb(*a):
            callbacks.append(loop.time())

        class Man(GeckoAsyncSpaMan):
            async def handle_event(self, event, **kw):
                if yielding:
                    await asyncio.sleep(0)
                if origin == "user-in-handler" and "ERROR_RF_ERROR" in str(event) and not res.get("handler_reset_done"):
                    # the client's handler of an event delivered by one of the connection's own consumer tasks is SUSPENDED (it awaits
                    # something of its own) when a reset arrives from another task: the cancellation lands inside the consumer's callback
                    res["handler_reset_done"] = True
                    loop.call_later(0.1, lambda: asyncio.ensure_future(self.async_reset()))
                    await asyncio.sleep(0.5)
                    res["handler_resumed_after_reset"] = True          # (only reached if the cancellation did not end the handler)
                if origin == "handler" and "ERROR_RF_ERROR" in str(event) and not res.get("handler_reset_done"):
                    # the CLIENT resets from inside its handler of an event that one of the connection's own tasks delivers
                    res["handler_reset_done"] = True
                    await self.async_reset()

            async def async_reset(self):
                # ledger bookkeeping at the moment the reset starts: what belongs to the connection being abandoned
                cur = asyncio.current_task()
                rec = {"t": round(loop.time(), 3), "state": str(self.spa_state).split(".")[-1], "from_task": cur.get_name() if cur else "?",
                       "transports": [t for t in loop.transports if not t.closed], "facade": self._facade, "spa": self._spa,
                       "tasks": [t for t in asyncio.all_tasks() if not t.done() and t.get_name().split(":")[0] in ("SPA", "FACADE", "LOC")]}
                if self._facade is not None:
                    self._facade.watch(client_cb)
                    for d in self._facade.all_automation_devices:
                        if d is not None:
                            d.watch(client_cb)
                if self._spa is not None:
                    self._spa.watch(client_cb)
                    for a in list(self._spa.struct.accessors.values())[:50]:
                        a.watch(client_cb)
                res["resets"].append(rec)
                try:
                    await super().async_reset()
                    rec["outcome"] = "returned"
                except asyncio.CancelledError:
                    rec["outcome"] = "cancelled"
                    raise
                except BaseException as e:  # noqa
                    rec["outcome"] = f"raised {type(e).__name__}"
                    raise
                finally:
                    # where the reset LANDED (C08: always IDLE with no facade, spa or descriptors)
                    rec["landed"] = {"state": str(self.spa_state).split(".")[-1], "facade": self._facade is not None,
                                     "spa": self._spa is not None, "descriptors": self._spa_descriptors is not None}
                    # "terminates PROMPTLY": which tasks of the abandoned connection are still alive two seconds after the reset

                    def snapshot(rec=rec):
                        rec["alive_2s"] = sorted(t.get_name() for t in rec["tasks"] if not t.done())
                    loop.call_later(2.0, snapshot)
        sim = fakenet.make_sim(SNAP)
        net = fakenet.Network(loop, sim, phases=phases, seed=1)
        loop.network = net
        m = Man("uuid-1", spa_identifier=IDENT, spa_address="10.0.0.9", spa_name="Spa")
        await m.__aenter__()
        pump = [t for t in asyncio.all_tasks() if t.get_name() == "SPAMAN:Sequence Pump"][0]
        healthy_from = sum(d for d, _ in phases)
        user_done = False
        while loop.time() < healthy_from + settle:
            await asyncio.sleep(0.05)
            st = str(m.spa_state).split(".")[-1]
            if origin == "user" and not user_done and st.startswith("ERROR_"):
                user_done = True
                await asyncio.sleep(1.0)
                await m.async_reset()
        res["state_at_end"] = str(m.spa_state).split(".")[-1]
        res["pump_alive"] = not pump.done()
        res.setdefault("handler_resumed_after_reset", False)
        first = res["resets"][0] if res["resets"] else None
        if first is not None:
            n_cb = len(callbacks)
            import rig
            for tr in first["transports"]:
                for i in range(3):
                    tr.deliver(rig.frame(IDENT.encode(), m._client_id, b"STATP\x01" + bytes([1, 10 + i, 0x55, 0xAA + i])), fakenet.SIM_ADDR)
            await asyncio.sleep(3)
            res["late_callbacks"] = len(callbacks) - n_cb
            # everything that was open when the reset was issued belongs to the connection being abandoned (a new connection's endpoint is created later)
            res["endpoint_open"] = [t.id for r in res["resets"] for t in r["transports"] if not t.closed]
            res["tasks_alive"] = sorted({t.get_name() for r in res["resets"] for t in r["tasks"] if not t.done()})
            obs = 0
            for r in res["resets"]:
                if r["facade"] is not None and r["facade"] is not m.facade:
                    obs += sum(len(d._observers) for d in r["facade"].all_automation_devices if d is not None)
                if r["spa"] is not None and r["spa"] is not m._spa:
                    obs += len(r["spa"]._observers)
            res["observers_left"] = obs
            res["alive_2s"] = sorted({n for r in res["resets"] for n in r.get("alive_2s", [])})
            res["reset_states"] = [r["state"] for r in res["resets"]]
            res["reset_from"] = [r["from_task"] for r in res["resets"]]
            res["reset_outcomes"] = [r.get("outcome", "never-finished") for r in res["resets"]]
            res["reset_landed"] = [r.get("landed") for r in res["resets"]]
        try:
            await m.__aexit__(None, None, None)
        except BaseException:  # noqa
            pass
    vloop.run_virtual(body, seed=1, stable=True)
    for r in res["resets"]:
        for k in ("transports", "facade", "spa", "tasks"):
            r.pop(k, None)
    return res


def explore_interrupted_reset(then):
    """a reset that is itself INTERRUPTED: the client's teardown handler is slow and the caller gives up on the reset
    (`asyncio.wait_for(manager.async_reset(), 0.3)` - a time-limited reset), so the cancellation lands in the middle of the spa's
    disconnection; `then` = what follows: 'reset' (a second, complete reset and later the exit) or 'exit' (the context exit at once).
    Whatever was opened for the abandoned connection must still be closed, and its tasks must end."""
    from geckolib import GeckoAsyncSpaMan
    res = {}

    async def body(loop):
        slow = [True]

        class Man(GeckoAsyncSpaMan):
            async def handle_event(self, event, **kw):
                name = str(event)
                if slow[0] and ("TEARDOWN" in name or "DISCONNECTED" in name):
                    await asyncio.sleep(1.0)
        sim = fakenet.make_sim(SNAP)
        loop.network = fakenet.Network(loop, sim, phases=[], seed=1)
        m = Man("uuid-1", spa_identifier=IDENT, spa_address="10.0.0.9", spa_name="Spa")
        await m.__aenter__()
        for _ in range(800):
            await asyncio.sleep(0.05)
            if m.facade is not None:
                break
        res["connected"] = m.facade is not None
        await asyncio.sleep(2.0)
        mine = [t for t in loop.transports if not t.closed]
        tasks = [t for t in asyncio.all_tasks() if not t.done() and t.get_name().split(":")[0] in ("SPA", "FACADE")]
        try:
            await asyncio.wait_for(m.async_reset(), 0.3)
            res["first_reset"] = "returned"
        except asyncio.TimeoutError:
            res["first_reset"] = "interrupted"
        slow[0] = False
        if then == "reset":
            await m.async_reset()
            await asyncio.sleep(2.0)
            res["open_after_second_reset"] = [t.id for t in mine if not t.closed]
            res["alive_after_second_reset"] = sorted(t.get_name() for t in tasks if not t.done())
            await asyncio.sleep(20.0)
        await m.__aexit__(None, None, None)
        await asyncio.sleep(1.0)
        res["open_at_end"] = [t.id for t in loop.transports if not t.closed]
        res["alive_at_end"] = sorted(t.get_name() for t in asyncio.all_tasks() if not t.done() and t.get_name().split(":")[0] in ("SPA", "FACADE", "LOC", "SPAMAN"))
    vloop.run_virtual(body, seed=1, stable=True)
    return res


def explore_commands_in_flight(kind):
    """steady state, the spa stops answering, the client issues the SAME kind of command twice (two key presses, two set-values: each
    starts a background task of the connection under the same name), then a reset or a context exit: every one of those tasks ends"""
    from geckolib import GeckoAsyncSpaMan
    res = {}

    async def body(loop):
        class Man(GeckoAsyncSpaMan):
            async def handle_event(self, event, **kw):
                pass
        sim = fakenet.make_sim(SNAP)
        net = fakenet.Network(loop, sim, phases=[(20, "healthy"), (100000, "blackout")], seed=1)
        loop.network = net
        m = Man("uuid-1", spa_identifier=IDENT, spa_address="10.0.0.9", spa_name="Spa")
        await m.__aenter__()
        while loop.time() < 21 and m.facade is None:
            await asyncio.sleep(0.05)
        res["connected"] = m.facade is not None
        if m.facade is None:
            await m.__aexit__(None, None, None)
            return
        while loop.time() < 21:
            await asyncio.sleep(0.05)
        spa = m.facade.spa
        before = set(asyncio.all_tasks())
        spa.press(1)
        spa.press(2)
        acc = [a for a in spa.accessors.values() if a.read_write is not None and a.type == "Word"][:1] or \
              [a for a in spa.accessors.values() if a.read_write is not None][:1]
        for v in (1, 2):
            try:
                acc[0].value = acc[0].value if not isinstance(acc[0].value, int) else (acc[0].value + v) % 100
            except Exception as e:  # noqa
                res["set_error"] = f"{type(e).__name__}: {e}"
        await asyncio.sleep(0.3)
        mine = [t for t in asyncio.all_tasks() if t not in before and t.get_name().startswith("SPA:")]
        res["command_tasks"] = sorted(t.get_name() for t in mine)
        if kind == "reset":
            await m.async_reset()
            await asyncio.sleep(1.0)
            res["alive_after"] = sorted(t.get_name() for t in mine if not t.done())
            await m.__aexit__(None, None, None)
        else:
            await m.__aexit__(None, None, None)
            await asyncio.sleep(0.2)
            res["alive_after"] = sorted(t.get_name() for t in mine if not t.done())
        for t in mine:
            if not t.done():
                t.cancel()
    vloop.run_virtual(body, stable=True)
    return res


def explore_endpoint_refused(reset_after, refusals=1, then_exit=True):
    """the host refuses the connection's UDP endpoint (OSError from `create_datagram_endpoint`, the network still coming up) `refusals`
    times; the client resets `reset_after` seconds after start-up - before, while or after the library deals with the refusal. Whatever
    the library does about the refusal: once things have settled nothing may be left that the manager does not own, and after the exit nothing at all"""
    from geckolib import GeckoAsyncSpaMan
    res = {}

    async def body(loop):
        events = []

        class Man(GeckoAsyncSpaMan):
            async def handle_event(self, event, **kw):
                events.append((round(loop.time(), 2), str(event).split(".")[-1]))
        sim = fakenet.make_sim(SNAP)
        loop.network = fakenet.Network(loop, sim)
        loop.endpoint_faults = refusals
        m = Man("uuid-1", spa_identifier=IDENT, spa_address="10.0.0.9", spa_name="Spa")
        await m.__aenter__()
        await asyncio.sleep(reset_after)
        res["refused_before_reset"] = getattr(loop, "endpoint_refusals", 0)
        try:
            await asyncio.wait_for(m.async_reset(), 60)
        except BaseException as e:  # noqa
            res["reset_raised"] = f"{type(e).__name__}: {e}"
        n_ev = len(events)
        await asyncio.sleep(40)
        cur = getattr(m._spa, "_transport", None) if m._spa else None
        res["state"] = str(m.spa_state)
        res["endpoints_nobody_owns"] = [t.id for t in loop.transports if not t.closed and t is not cur and not t.kw.get("allow_broadcast")]
        alive = collections.Counter(t.get_name().split(":")[0] for t in asyncio.all_tasks() if not t.done() and ":" in t.get_name())
        expect = {"SPA": 7, "FACADE": 1} if m.facade is not None else ({"SPA": 7} if m._spa is not None else {})
        res["tasks_leaked"] = {k: alive.get(k, 0) - expect.get(k, 0) for k in ("SPA", "FACADE") if alive.get(k, 0) > expect.get(k, 0)}
        res["refused"] = getattr(loop, "endpoint_refusals", 0)
        if then_exit:
            try:
                await asyncio.wait_for(m.__aexit__(None, None, None), 60)
            except BaseException as e:  # noqa
                res["exit_raised"] = f"{type(e).__name__}: {e}"
            await asyncio.sleep(5)
            n2 = len(events)
            await asyncio.sleep(30)
            res["events_after_exit"] = events[n2:][:5]
            res["open_at_end"] = [t.id for t in loop.transports if not t.closed]
            res["tasks_at_end"] = [t.get_name() for t in asyncio.all_tasks() if t is not asyncio.current_task() and not t.done()]
        res["events_tail"] = events[max(0, n_ev - 3):n_ev + 6]
    vloop.run_virtual(body, seed=1, stable=True)
    return res


def show(e, t, o, p):
    return f"endpointOpen={int(bool(e))} tasksAlive={int(bool(t))} observersLeft={int(bool(o))} pumpAlive={int(bool(p))}"


def run(ctx):
    st = translate.run(["CrashPoints", "Skeletons"])
    ctx.cov["translator"] = st
    if st["CrashPoints"] != "ok":
        ctx.obligation_broken("translate:CrashPoints", st["CrashPoints"])
    ctx.lean_obligations("GeckoModel.Properties.C10")
    base = explore()
    points = base["points"]
    ctx.cov["await_points_reached"] = [list(p) for p in points]
    lines, impl = [], []
    for pt in points:
        proc, ln = pt
        r = explore(inject_at=pt, kind="reset")
        x = explore(inject_at=pt, kind="exit")
        ctx.count("evaluations", 2)
        if not r.get("t_inject") and proc != "pump-idle":
            ctx.note = "point not reached on re-run"
        reset_l = show(r.get("endpoint_open"), r.get("tasks_leaked"), r.get("observers_left"), r.get("pump_alive", True))
        exit_l = show(x["open_at_end"], x["tasks_at_end"], 0, not x["pump_done_at_end"])
        lines.append(f"point {proc} {ln}")
        impl.append(f"reset: {reset_l} | exit: {exit_l}")
        ctx.hist("points_by_procedure", proc)
        inp = {"point": [proc, ln]}
        # ------------- direct oracle: the property itself
        if r.get("endpoint_open"):
            ctx.violation(f"endpoint-open:reset:{proc}", dict(inp, kind="reset"), "every endpoint of the abandoned connection is closed", f"{len(r['endpoint_open'])} still open")
        if r.get("tasks_leaked"):
            ctx.violation(f"tasks-alive:reset:{proc}", dict(inp, kind="reset"), "every background task of the abandoned connection terminates", r["tasks_leaked"])
        if r.get("observers_left"):
            ctx.violation(f"observers-left:reset:{proc}", dict(inp, kind="reset"), "no observer left on abandoned objects", r["observers_left"])
        if r.get("late_callbacks"):
            ctx.violation(f"late-callback:reset:{proc}", dict(inp, kind="reset"), "late datagrams invoke no client observer", r["late_callbacks"])
        if r.get("t_inject") is not None and not r.get("pump_alive", True):
            ctx.violation(f"pump-dead:reset:{proc}", dict(inp, kind="reset"), "the manager keeps working after a reset", r.get("pump_exc"))
        if x["open_at_end"]:
            ctx.violation(f"endpoint-open:exit:{proc}", dict(inp, kind="exit"), "every endpoint is closed at context exit", f"{len(x['open_at_end'])} still open")
        if x["tasks_at_end"]:
            ctx.violation(f"tasks-alive:exit:{proc}", dict(inp, kind="exit"), "every task terminates at context exit", x["tasks_at_end"][:5])
        # the same exit with a client whose event handler really suspends (0.3 s in the *_FINISHED / teardown handlers)
        xs = explore(inject_at=pt, kind="exit", slow=True)
        ctx.count("evaluations")
        if xs.get("t_inject") is not None:
            ctx.hist("exit_with_suspending_handler", proc)
            if xs.get("tasks_at_exit_return"):
                ctx.violation(f"tasks-alive-at-exit-return:{proc}", dict(inp, kind="exit-slow-handler"),
                              "no library task is alive when the context exit returns", xs["tasks_at_exit_return"][:5])
            if xs.get("handler_activity_after_exit"):
                ctx.violation(f"late-effect:exit:{proc}", dict(inp, kind="exit-slow-handler"),
                              "no client event handler runs after the context exit has returned", xs["handler_activity_after_exit"][:4])
            if xs["open_at_end"]:
                ctx.violation(f"endpoint-open:exit:{proc}", dict(inp, kind="exit-slow-handler"), "every endpoint is closed at context exit", f"{len(xs['open_at_end'])} still open")
            if xs["tasks_at_end"]:
                ctx.violation(f"tasks-alive:exit:{proc}", dict(inp, kind="exit-slow-handler"), "every task terminates at context exit", xs["tasks_at_end"][:5])
    # ------------- resets in error states: the manager's own reset from inside the ping-loop task / a user reset, client handler yielding or not
    for sc in ERROR_SCENARIOS:
        for origin in ("self", "user") + (("handler", "user-in-handler") if sc == "rf-fault" else ()):
            for yielding in (False, True):
                e = explore_error(sc, origin, yielding)
                ctx.count("evaluations")
                ctx.hist("error_state_resets", f"{sc}:{origin}:{'yielding' if yielding else 'plain'}:{','.join(e.get('reset_states', ['none'])[:2])}")
                if not e["resets"]:
                    ctx.count("error_scenarios_without_reset")
                    continue
                inp = {"scenario": sc, "origin": origin, "yielding": yielding}
                tag = f"{sc}:{origin}:{'yielding' if yielding else 'plain'}"
                if origin == "self" and not any(f.startswith("SPA:") for f in e["reset_from"]):
                    ctx.count("self_reset_not_from_spa_task")
                if e["endpoint_open"]:
                    ctx.violation(f"endpoint-open:error-reset:{tag}", inp, "every endpoint of the abandoned connection is closed", f"{len(e['endpoint_open'])} still open; reset {e['reset_outcomes']}")
                if e.get("alive_2s"):
                    ctx.violation(f"tasks-linger:error-reset:{tag}", inp, "every background task of the abandoned connection terminates promptly (gone 2 s after the reset)",
                                  e["alive_2s"][:5])
                if e["tasks_alive"]:
                    ctx.violation(f"tasks-alive:error-reset:{tag}", inp, "every background task of the abandoned connection terminates", e["tasks_alive"][:5])
                if e["observers_left"]:
                    ctx.violation(f"observers-left:error-reset:{tag}", inp, "no observer left on abandoned objects", e["observers_left"])
                if e["late_callbacks"]:
                    ctx.violation(f"late-callback:error-reset:{tag}", inp, "late datagrams invoke no client observer", e["late_callbacks"])
                if not e["pump_alive"]:
                    ctx.violation(f"pump-dead:error-reset:{tag}", inp, "the manager keeps working after a reset", "sequence pump finished")
                if origin in ("handler", "user-in-handler"):
                    if origin == "user-in-handler" and e.get("handler_resumed_after_reset"):
                        ctx.violation(f"handler-resumed:error-reset:{tag}", inp, "the consumer task that was delivering the event ends with the connection "
                                      "(its suspended callback does not resume)", "the client handler resumed after the reset had cancelled its task")
                    continue
                lines.append(f"errreset {origin} {int(yielding)}")
                impl.append(show(e["endpoint_open"], e["tasks_alive"], e["observers_left"], e["pump_alive"]) + f" completed={int(e['reset_outcomes'][0] == 'returned')}")
    # ------------- commands of the same kind in flight when the connection is abandoned
    for kind in ("reset", "exit"):
        try:
            c = explore_commands_in_flight(kind)
        except Exception as e:  # noqa
            ctx.violation(f"commands-in-flight:raised:{kind}", {"kind": "commands-in-flight", "action": kind}, "the scenario runs", f"{type(e).__name__}: {e}")
            continue
        ctx.count("evaluations")
        ctx.hist("commands_in_flight", f"{kind}:{len(c.get('command_tasks', []))} tasks")
        if c.get("connected") and len(c.get("command_tasks", [])) >= 4 and c.get("alive_after"):
            ctx.violation(f"tasks-alive:{kind}:commands-in-flight", {"kind": "commands-in-flight", "action": kind, "tasks_started": c["command_tasks"]},
                          "every background task of the abandoned connection terminates", c["alive_after"])
        elif not c.get("connected") or len(c.get("command_tasks", [])) < 4:
            ctx.count("commands_in_flight_not_set_up")
    # ------------- the host refuses the connection's endpoint once / twice (network still coming up); the reset comes before, while or after
    for reset_after in (0.3, 0.5, 0.9, 1.4, 2.5, 3.5, 6.5):
        for refusals in (1, 2):
            try:
                r = explore_endpoint_refused(reset_after, refusals)
            except Exception as e:  # noqa
                r = {"raised": f"{type(e).__name__}: {e}"}
            ctx.count("evaluations")
            ctx.hist("endpoint_refused", f"reset at {reset_after}s, {refusals} refusals")
            bad = {k: v for k, v in r.items() if k in ("raised", "reset_raised", "exit_raised", "endpoints_nobody_owns", "tasks_leaked", "events_after_exit", "open_at_end", "tasks_at_end") and v}
            if bad:
                ctx.violation("endpoint-refused:left-behind", {"kind": "endpoint-refused", "reset_after": reset_after, "refusals": refusals},
                              "after the reset has settled every open endpoint and task belongs to the manager's current connection; after the exit nothing is left and no event follows",
                              dict(bad, state=r.get("state"), events=r.get("events_tail")))
                break
        else:
            continue
        break
    # ------------- a reset that is itself interrupted (a time-limited reset with a slow client), then a complete reset / the exit
    for then in ("reset", "exit"):
        try:
            r = explore_interrupted_reset(then)
        except Exception as e:  # noqa
            ctx.violation(f"interrupted-reset:raised:{then}", {"kind": "interrupted-reset", "then": then}, "the scenario runs", f"{type(e).__name__}: {e}")
            continue
        ctx.count("evaluations")
        ctx.hist("interrupted_reset", f"{then}:{r.get('first_reset')}")
        bad = {k: v for k, v in r.items() if k in ("open_after_second_reset", "alive_after_second_reset", "open_at_end", "alive_at_end") and v}
        if r.get("connected") and r.get("first_reset") == "interrupted" and bad:
            ctx.violation(f"{'endpoint-open' if any(k.startswith('open') for k in bad) else 'tasks-alive'}:interrupted-reset:{then}",
                          {"kind": "interrupted-reset", "then": then}, "every endpoint of the abandoned connection is closed and its tasks end", bad)
    # ------------- cycles
    n = 4 if ctx.quick else 30
    cyc = explore(cycles=n, horizon=8.0)
    counts = cyc.get("cycle_counts", [])
    ctx.cov["cycle_counts"] = counts
    ctx.count("evaluations", n)
    if counts and counts[-1][0] - counts[0][0] >= len(counts) - 1 and len(counts) > 2:
        ctx.violation("endpoint-growth:reset-cycles", {"cycles": n}, "open endpoints stay bounded over reconnect cycles", [c[0] for c in counts][:10])
    if counts and counts[-1][1] > counts[0][1] + 2:
        ctx.violation("task-growth:reset-cycles", {"cycles": n}, "live tasks stay bounded over reconnect cycles", [c[1] for c in counts][:10])
    lines.append(f"cycles {n}")
    impl.append(str(counts[-1][0]) if counts else "?")
    try:
        model = Driver("Driver/C10.lean").run(lines + ["count"])
    except DriverFailure as e:
        ctx.obligation_broken("driver:C10", e)
        model = None
    if model is not None:
        ctx.cov["crash_points_in_table"] = int(model[-1])
        for l, mo, im in zip(lines, model, impl):
            if mo != im:
                ctx.obligation_broken("correspondence:teardown-model-vs-implementation", {"op": l, "model": mo, "impl": im})
        ctx.cov["correspondence_ops"] = len(lines)
    ctx.sample({"point": lines[2] if len(lines) > 2 else "", "impl": impl[2] if len(impl) > 2 else ""})
    ctx.sample({"point": lines[-2], "impl": impl[-2]})
    ctx.cov["distinct_nontrivial"] = len(points) * 2
    ctx.cov["exhaustive"] = True
    ctx.cov["rule"] = ("every await point the pump task's coroutine stack reaches during discovery, handshake and steady state on a healthy network (observed after "
                       "every loop iteration), x {reset, exit}; resets in error states (long blackout, RF-error period, blackout inside the handshake) x {the manager's own reset from inside the ping-loop "
                       "task, a user reset} x {client handler returns at once, really yields}; plus n reconnect cycles. distinct non-trivial = (point, kind) pairs")
    ctx.assumptions += ["virtual-time loop with FIFO-stable timers; the spa is the bundled simulator with the default snapshot",
                        "'closed' = close() was called on the transport handed out by the loop"]


def replay(inp):
    if inp.get("kind") == "endpoint-refused":
        r = explore_endpoint_refused(inp["reset_after"], inp["refusals"])
        bad = {k: v for k, v in r.items() if k in ("raised", "reset_raised", "exit_raised", "endpoints_nobody_owns", "tasks_leaked", "events_after_exit", "open_at_end", "tasks_at_end") and v}
        return bool(bad), bad or "nothing left behind"
    if inp.get("kind") == "interrupted-reset":
        r = explore_interrupted_reset(inp["then"])
        bad = {k: v for k, v in r.items() if k in ("open_after_second_reset", "alive_after_second_reset", "open_at_end", "alive_at_end") and v}
        return bool(bad), bad or "everything closed"
    if inp.get("kind") == "commands-in-flight":
        c = explore_commands_in_flight(inp["action"])
        return bool(c.get("alive_after")), c
    if "scenario" in inp:
        e = explore_error(inp["scenario"], inp["origin"], inp["yielding"])
        bad = bool(e.get("endpoint_open") or e.get("tasks_alive") or e.get("observers_left") or e.get("late_callbacks") or not e.get("pump_alive", True))
        return bad, {k: e.get(k) for k in ("endpoint_open", "tasks_alive", "observers_left", "late_callbacks", "pump_alive", "reset_outcomes", "state_at_end")}
    pt = tuple(inp["point"]) if "point" in inp else None
    if pt is None:
        c = explore(cycles=inp.get("cycles", 4), horizon=8.0).get("cycle_counts", [])
        return bool(c and c[-1][0] - c[0][0] >= len(c) - 1), c
    if inp.get("kind") == "exit-slow-handler":
        x = explore(inject_at=pt, kind="exit", slow=True)
        return bool(x.get("tasks_at_exit_return") or x.get("handler_activity_after_exit") or x["open_at_end"] or x["tasks_at_end"]), \
            {k: x.get(k) for k in ("tasks_at_exit_return", "handler_activity_after_exit", "open_at_end", "tasks_at_end")}
    if inp.get("kind") == "exit":
        x = explore(inject_at=pt, kind="exit")
        return bool(x["open_at_end"] or x["tasks_at_end"]), {"open_at_end": x["open_at_end"], "tasks": x["tasks_at_end"]}
    r = explore(inject_at=pt, kind="reset")
    bad = bool(r.get("endpoint_open") or r.get("tasks_leaked") or r.get("observers_left") or r.get("late_callbacks") or not r.get("pump_alive", True))
    return bad, {k: r.get(k) for k in ("endpoint_open", "tasks_leaked", "observers_left", "late_callbacks", "pump_alive", "pump_exc")}
