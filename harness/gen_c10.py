"""translator plugin for C10: the suspension points of the connection procedures and the teardown facts, from the source.

CrashPoints.lean:
  crashPoints : every `await` of GeckoAsyncLocator.discover and GeckoAsyncSpa._connect (source order) plus the two resting
                points of the sequence pump (idle, connected), each annotated syntactically with what the attempt holds when
                suspended there: which endpoint exists (none yet / being created / the locator's / the spa's) and whether the
                LOC / SPA tasks have been spawned (position relative to create_datagram_endpoint and add_task in the body).
  facts       : what each teardown path does - read off the AST of disconnect / discover / __aexit__ / facade.disconnect /
                _sequence_pump / AsyncTasks.gather.
"""
import ast

from py2lean import Untranslatable, find_function, _dotted
import translate as T


def _calls(node):
    return [n for n in ast.walk(node) if isinstance(n, ast.Call)]


def _has_call(node, suffix, arg0=None):
    for c in _calls(node):
        d = _dotted(c.func) or ""
        if d.endswith(suffix):
            if arg0 is None or (c.args and isinstance(c.args[0], ast.Constant) and c.args[0].value == arg0):
                return True
    return False


def _walk_points(fn, proc):
    """await points of fn in source order with the resources held when suspended there"""
    pts = []
    state = {"endpoint": False, "tasks": False}

    def visit(stmts):
        for st in stmts:
            awaits = [n for n in ast.walk(st) if isinstance(n, ast.Await)] if not isinstance(st, (ast.If, ast.While, ast.For, ast.Try, ast.With)) else []
            if isinstance(st, (ast.If, ast.While)):
                for n in ast.walk(st.test):
                    if isinstance(n, ast.Await):
                        pts.append((proc, n.lineno, "yes" if state["endpoint"] else "no", state["tasks"]))
                visit(st.body)
                visit(st.orelse)
                continue
            if isinstance(st, ast.For):
                visit(st.body)
                continue
            if isinstance(st, ast.Try):
                visit(st.body)
                for h in st.handlers:
                    visit(h.body)
                visit(st.finalbody)
                continue
            if isinstance(st, ast.With):
                visit(st.body)
                continue
            creates = _has_call(st, "create_datagram_endpoint")
            for a in awaits:
                if creates:
                    pts.append((proc, a.lineno, "pending", state["tasks"]))
                else:
                    pts.append((proc, a.lineno, "yes" if state["endpoint"] else "no", state["tasks"]))
            if creates:
                state["endpoint"] = True
            if _has_call(st, "add_task"):
                state["tasks"] = True
    visit(fn.body)
    return pts


def _in_finally(fn, suffix):
    for n in ast.walk(fn):
        if isinstance(n, ast.Try):
            for st in n.finalbody:
                if _has_call(st, suffix):
                    return True
    return False


def _flat(stmts):
    """statements in execution order, `if` / `for` / `with` / `try` bodies flattened (the teardown procedures are straight-line code with guards)"""
    for st in stmts:
        if isinstance(st, ast.If):
            yield from _flat(st.body)
            yield from _flat(st.orelse)
        elif isinstance(st, (ast.For, ast.With)):
            yield from _flat(st.body)
        elif isinstance(st, ast.Try):
            yield from _flat(st.body)
            yield from _flat(st.finalbody)
        else:
            yield st


def _steps(fn, which):
    """the teardown procedure as a list of step kinds, in source order"""
    out = []
    for st in _flat(fn.body):
        if isinstance(st, ast.Expr) and isinstance(st.value, ast.Constant):
            continue
        src = ast.unparse(st)
        has_await = any(isinstance(n, ast.Await) for n in ast.walk(st))
        if has_await:
            if "_facade.disconnect()" in src and which == "reset":
                out.append("callFacadeDisconnect")
            elif "_spa.disconnect()" in src and which == "reset":
                out.append("callSpaDisconnect")
            elif "_event_handler(" in src or "_handle_event(" in src:
                out.append("awaitHandler")
            else:
                out.append("awaitOther")
        elif _has_call(st, "cancel_key_tasks", "SPA"):
            out.append("cancelSpa")
        elif _has_call(st, "cancel_key_tasks", "FACADE"):
            out.append("cancelFacade")
        elif _has_call(st, "cancel_key_tasks", "LOC"):
            out.append("cancelLoc")
        elif _has_call(st, "_protocol.disconnect"):
            out.append("dropProtocol")
        elif _has_call(st, "_transport.close") or _has_call(st, "transport.close"):
            out.append("closeTransport")
        elif _has_call(st, "unwatch_all"):
            out.append("unwatch")
        elif src.replace(" ", "") == "self._spa=None":
            out.append("clearSpa")
        elif src.replace(" ", "") == "self._facade=None":
            out.append("clearFacade")
        elif src.replace(" ", "") == "self._spa_state=GeckoSpaState.IDLE":
            out.append("setIdle")
        else:
            out.append("other")
    return out


def _finally_steps(fn, which):
    """the step list of the (outermost) `finally` block of fn"""
    class _F:
        pass
    for n in ast.walk(fn):
        if isinstance(n, ast.Try) and n.finalbody:
            f = _F()
            f.body = n.finalbody
            return _steps(f, which)
    return []


def gen_crash_points():
    spa = T.parse("async_spa.py")
    loc = T.parse("async_locator.py")
    man = T.parse("async_spa_manager.py")
    fac = T.parse("automation/async_facade.py")
    tasks = T.parse("async_tasks.py")
    connect = find_function(spa, "GeckoAsyncSpa._connect")
    discover = find_function(loc, "GeckoAsyncLocator.discover")
    disconnect = find_function(spa, "GeckoAsyncSpa.disconnect")
    aexit = find_function(man, "GeckoAsyncSpaMan.__aexit__")
    reset = find_function(man, "GeckoAsyncSpaMan.async_reset")
    pump = find_function(man, "GeckoAsyncSpaMan._sequence_pump")
    fdis = find_function(fac, "GeckoAsyncFacade.disconnect")
    gather = find_function(tasks, "AsyncTasks.gather")
    fupd = find_function(fac, "GeckoAsyncFacade._facade_update")
    awaits_in_finally = any(isinstance(a, ast.Await) for n in ast.walk(fupd) if isinstance(n, ast.Try) for st in n.finalbody for a in ast.walk(st))
    pts = _walk_points(discover, "discover") + _walk_points(connect, "_connect")
    if not any(p[2] == "pending" for p in pts if p[0] == "_connect") or not any(p[2] == "pending" for p in pts if p[0] == "discover"):
        raise Untranslatable("no create_datagram_endpoint await found in _connect / discover")
    pump_sleeps = [n.lineno for n in ast.walk(pump) if isinstance(n, ast.Await) and "asyncio.sleep" in ast.unparse(n)]
    if len(pump_sleeps) != 1:
        raise Untranslatable("_sequence_pump: expected exactly one idle sleep")
    # the pause of the retry rule (spa not found: wait, then reset): one more suspension point of the pump, holding nothing
    retry_pauses = [n.lineno for n in ast.walk(pump) if isinstance(n, ast.Await) and "config_sleep" in ast.unparse(n)]
    # does the pump survive an exception of locate / connect?  (a handler for Exception / BaseException / bare except that does not re-raise)
    survives = False
    for n in ast.walk(pump):
        if isinstance(n, ast.Try):
            for h in n.handlers:
                names = ast.unparse(h.type) if h.type is not None else "BaseException"
                reraises = any(isinstance(x, ast.Raise) for x in ast.walk(h))
                if ("Exception" in names and "Cancelled" not in names) and not reraises:
                    survives = True
    # does _connect notice that the spa was disconnected while its endpoint was being created, and release that endpoint?
    releases = False
    body = [st for st in connect.body if not (isinstance(st, ast.Expr) and isinstance(st.value, ast.Constant))]
    for i, st in enumerate(body):
        if any(isinstance(n, ast.Await) and "create_datagram_endpoint" in ast.unparse(n) for n in ast.walk(st)) and i + 1 < len(body):
            nxt = body[i + 1]
            if isinstance(nxt, ast.If) and ast.unparse(nxt.test) == "self._disconnected" and _has_call(nxt, ".close") \
                    and any(isinstance(n, ast.Return) for n in nxt.body) \
                    and not any(isinstance(t, ast.Attribute) and t.attr == "_transport" for n in ast.walk(st) if isinstance(n, ast.Assign) for t in ast.walk(n.targets[0])):
                before = [ast.unparse(b).replace(" ", "") for b in body[:i]]
                sets = any(ast.unparse(n).replace(" ", "") == "self._disconnected=True" for n in ast.walk(disconnect))
                releases = "self._disconnected=False" in before and sets
    facts = {
        "connectReleasesEndpointIfDisconnected": releases,
        "disconnectClosesTransport": _has_call(disconnect, "_transport.close") or _has_call(disconnect, "transport.close"),
        "disconnectCancelsSpaTasks": _has_call(disconnect, "cancel_key_tasks", "SPA"),
        "disconnectUnwatchesAll": _has_call(disconnect, "unwatch_all"),
        "discoverClosesOnNormalReturn": _has_call(discover, "_transport.close"),
        "discoverClosesInFinally": _in_finally(discover, "_transport.close"),
        "discoverCancelsLocTasks": _has_call(discover, "cancel_key_tasks", "LOC"),
        "discoverCancelsLocTasksInFinally": _in_finally(discover, "cancel_key_tasks"),
        "exitCancelsPump": _has_call(aexit, "cancel_key_tasks", "SPAMAN"),
        "exitResets": _has_call(aexit, "async_reset"),
        "exitGathersAllTasks": _has_call(aexit, "AsyncTasks.__aexit__") and any(isinstance(n, ast.For) and _has_call(n, ".cancel") for n in ast.walk(gather)),
        "resetDisconnectsFacade": _has_call(reset, "_facade.disconnect"),
        "resetDisconnectsSpa": _has_call(reset, "_spa.disconnect"),
        "facadeDisconnectCancelsTasks": _has_call(fdis, "cancel_key_tasks", "FACADE"),
        "facadeDisconnectUnwatches": _has_call(fdis, "unwatch_all"),
        "pumpSurvivesExceptions": survives,
        "facadeUpdateAwaitsInFinally": awaits_in_finally,
    }
    out = [T.HEADER, "namespace GeckoModel.Generated\n",
           "inductive EndpState | no | pending | yes\nderiving Repr, DecidableEq\n",
           "/-- one suspension point of a connection procedure, with what the attempt holds there -/\n"
           "structure CrashPoint where\n  proc : String\n  line : Nat\n  endpoint : EndpState\n  tasksSpawned : Bool\nderiving Repr, DecidableEq\n",
           "def crashPoints : List CrashPoint := [\n" + ",\n".join(
               f"  ⟨{T.lstr(p)}, {ln}, .{e}, {'true' if t else 'false'}⟩" for p, ln, e, t in pts) + ",\n" +
           "".join(f"  ⟨\"pump-retry-pause\", {ln}, .no, false⟩,\n" for ln in retry_pauses) +
           f"  ⟨\"pump-idle\", {pump_sleeps[0]}, .no, false⟩,\n  ⟨\"pump-connected\", {pump_sleeps[0]}, .yes, true⟩]\n",
           "structure TeardownFacts where\n" + "\n".join(f"  {k} : Bool" for k in facts) + "\nderiving Repr, DecidableEq\n",
           "def teardownFacts : TeardownFacts := {\n" + ",\n".join(f"  {k} := {'true' if v else 'false'}" for k, v in facts.items()) + " }\n",
           "/-- one statement of a teardown procedure (async_reset / GeckoAsyncSpa.disconnect / GeckoAsyncFacade.disconnect), classified -/\n"
           "inductive TStep | awaitHandler | awaitOther | callFacadeDisconnect | callSpaDisconnect | cancelSpa | cancelFacade | cancelLoc | dropProtocol\n"
           "  | closeTransport | unwatch | clearSpa | clearFacade | setIdle | other\nderiving Repr, DecidableEq\n",
           "def resetSteps : List TStep := [" + ", ".join("." + x for x in _steps(reset, "reset")) + "]",
           "def spaDisconnectSteps : List TStep := [" + ", ".join("." + x for x in _steps(disconnect, "spa")) + "]",
           "def facadeDisconnectSteps : List TStep := [" + ", ".join("." + x for x in _steps(fdis, "facade")) + "]\n",
           "/-- the `finally` block of GeckoAsyncLocator.discover (runs when discovery returns AND when it is cancelled) -/\n"
           "def discoverFinallySteps : List TStep := [" + ", ".join("." + x for x in _finally_steps(discover, "discover")) + "]\n",
           "end GeckoModel.Generated\n"]
    return "\n".join(out)


GENERATORS = {"CrashPoints": gen_crash_points}
