"""gen_c14.py - translator plugin for C14: Generated/TempArith.lean.

From /repo's working tree:
  * driver/accessor.py  GeckoTempStructAccessor._get_value / _set_value / async_set_value -> tempRead / tempWriteSync /
    tempWriteAsync.  Float arithmetic becomes EXACT rational arithmetic (`Rat`) in which the result of every floating
    point operation (`/`, `*`, `-`, `+` with a float operand, `float(x)`) passes through a rounding function `fl`
    that is a PARAMETER of the generated definition: `fl := id` is the exact model, any other `fl` the float path of
    `C14.float_bridge`.  `int(x)` becomes `truncZ x` (truncation toward zero).  Float literals become the exact
    rational value of the double they denote (18.0 -> 18).  An int operand of a float operation is used as it is:
    the int -> double conversion is exact below 2^53 and the raw words are below 2^16.
  * automation/heater.py  GeckoWaterHeater: the unit symbols, the MIN/MAX constants, the bodies of
    temperature_unit / min_temp / max_temp (unit setting -> value) and the decision ladder current_operation.
"""
import ast
from fractions import Fraction

from py2lean import FnSpec, Translator, Untranslatable, find_function, _dotted
import translate as T


def _lit(fr: Fraction):
    if fr.denominator == 1:
        return f"({fr.numerator} : Rat)" if fr.numerator >= 0 else f"(-{-fr.numerator} : Rat)"
    return f"(({fr.numerator} : Rat) / ({fr.denominator} : Rat))"


class RatTranslator(Translator):
    """py2lean.Translator over exact rationals with an explicit rounding function for float operations"""

    def __init__(self, spec, float_vars=()):
        super().__init__(spec)
        self.env = {v: True for v in float_vars}   # python local -> "is a float" (False: int)

    # -- typing: is this expression a Python float?
    def is_float(self, e):
        if isinstance(e, ast.Constant):
            return isinstance(e.value, float)
        if isinstance(e, ast.Name):
            return self.env.get(e.id, False)
        if isinstance(e, ast.Call):
            return _dotted(e.func) == "float"
        if isinstance(e, ast.BinOp):
            if isinstance(e.op, ast.Div):
                return True
            return self.is_float(e.left) or self.is_float(e.right)
        if isinstance(e, ast.UnaryOp):
            return self.is_float(e.operand)
        return False

    def num(self, n):
        return _lit(Fraction(n))

    def expr(self, e):
        if isinstance(e, ast.Constant) and isinstance(e.value, float):
            return _lit(Fraction(e.value))            # the exact value of the double
        if isinstance(e, ast.Call):
            fn = _dotted(e.func)
            if fn == "float" and len(e.args) == 1 and not e.keywords:
                return f"(fl {self.expr(e.args[0])})"  # str / int / float -> nearest double
            if fn == "int" and len(e.args) == 1 and not e.keywords:
                return f"(truncZ {self.expr(e.args[0])})"
        if isinstance(e, ast.BinOp) and isinstance(e.op, (ast.Add, ast.Sub, ast.Mult, ast.Div)):
            l, r = self.expr(e.left), self.expr(e.right)
            op = {ast.Add: "+", ast.Sub: "-", ast.Mult: "*", ast.Div: "/"}[type(e.op)]
            if isinstance(e.op, ast.Div) and not (isinstance(e.right, ast.Constant) and e.right.value != 0):
                raise Untranslatable(f"division by a non-literal: {ast.unparse(e)}")
            t = f"({l} {op} {r})"
            return f"(fl {t})" if self.is_float(e) else t
        if isinstance(e, ast.BinOp):
            raise Untranslatable(f"operator in float arithmetic: {ast.unparse(e)}")
        return super().expr(e)

    def block(self, stmts, ind):
        if stmts and isinstance(stmts[0], ast.If):
            st, rest = stmts[0], stmts[1:]
            pad = "  " * ind
            saved = dict(self.env)
            a = self.block(st.body + rest, ind + 1)
            self.env = dict(saved)
            b = self.block(st.orelse + rest, ind + 1)
            self.env = saved
            return f"{pad}if {self.prop(st.test)} then\n{a}\n{pad}else\n{b}"
        if stmts and isinstance(stmts[0], ast.Assign) and len(stmts[0].targets) == 1 and isinstance(stmts[0].targets[0], ast.Name):
            st = stmts[0]
            val = self.expr(st.value)
            self.env[st.targets[0].id] = self.is_float(st.value)
            pad = "  " * ind
            return f"{pad}let {self._local(st.targets[0].id)} := {val}\n{self.block(stmts[1:], ind)}"
        return super().block(stmts, ind)


UNITS_STMT = "units = self.struct.accessors[GeckoConstants.KEY_TEMP_UNITS].value"


def _body(fn):
    return [st for st in fn.body if not (isinstance(st, ast.Expr) and isinstance(st.value, ast.Constant))]


def _synth(name, params, stmts):
    return ast.FunctionDef(name=name, args=ast.arguments(posonlyargs=[], args=[ast.arg(arg=p) for p in params], kwonlyargs=[],
                                                         kw_defaults=[], defaults=[]), body=stmts, decorator_list=[])


def _temp_read(tree):
    fn = find_function(tree, "GeckoTempStructAccessor._get_value")
    body = _body(fn)
    if len(body) < 3 or ast.unparse(body[0]) != "temp = super()._get_value(status_block)" or ast.unparse(body[1]) != UNITS_STMT:
        raise Untranslatable("GeckoTempStructAccessor._get_value: unexpected prefix")
    spec = FnSpec("tempRead", [("fl", "Rat → Rat"), ("units", "String"), ("temp", "Rat")], "Rat", mode="int")
    spec.self_name = "__none__"
    return RatTranslator(spec).function(_synth("f", ["fl", "units", "temp"], body[2:]))


def _temp_write(tree, meth, lean_name, tail_src):
    fn = find_function(tree, f"GeckoTempStructAccessor.{meth}")
    body = _body(fn)
    if len(body) < 3 or ast.unparse(body[0]) != UNITS_STMT:
        raise Untranslatable(f"GeckoTempStructAccessor.{meth}: unexpected prefix")
    last = body[-1]
    if ast.unparse(last) != tail_src:
        raise Untranslatable(f"GeckoTempStructAccessor.{meth}: last statement is not `{tail_src}` but `{ast.unparse(last)}`")
    call = last.value.value if isinstance(last.value, ast.Await) else last.value
    stmts = body[1:-1] + [ast.Return(value=call.args[0])]
    spec = FnSpec(lean_name, [("fl", "Rat → Rat"), ("units", "String"), ("temp", "Rat")], "Int", mode="int")
    spec.self_name = "__none__"
    # the parameter `temp` is whatever the caller passed (str / int / float): not a float until float() is applied
    return RatTranslator(spec).function(_synth("f", ["fl", "units", "temp"], stmts))


def _class_consts(cls):
    out = {}
    for st in cls.body:
        if isinstance(st, ast.Assign) and len(st.targets) == 1 and isinstance(st.targets[0], ast.Name) and isinstance(st.value, ast.Constant):
            out[st.targets[0].id] = st.value.value
    return out


def _prop_fn(cls, name):
    for st in cls.body:
        if isinstance(st, ast.FunctionDef) and st.name == name and any(_dotted(d) == "property" for d in st.decorator_list):
            return st
    raise Untranslatable(f"GeckoWaterHeater.{name}: property not found")


def _const_strings(tree_const, names):
    cls = [n for n in tree_const.body if isinstance(n, ast.ClassDef) and n.name == "GeckoConstants"]
    if not cls:
        raise Untranslatable("const.py: class GeckoConstants not found")
    c = _class_consts(cls[0])
    miss = [n for n in names if not isinstance(c.get(n), str)]
    if miss:
        raise Untranslatable(f"const.py: {miss} not string constants")
    return {n: c[n] for n in names}


def gen_temp_arith():
    tree = T.parse("driver/accessor.py")
    out = [T.HEADER, "import GeckoModel.Model.RatTrunc", "set_option linter.unusedVariables false", "namespace GeckoModel.Generated\n"]
    out.append("/-- accessor.py `GeckoTempStructAccessor._get_value` after the two fetches (`temp` = the stored word, `units` = value of\n"
               "the TempUnits item); `fl` = rounding of every float operation (`id` = exact arithmetic) -/")
    out.append(_temp_read(tree))
    out.append("/-- accessor.py `GeckoTempStructAccessor._set_value`: the integer handed to the Word write (`temp` = the number the\ncaller's argument denotes) -/")
    out.append(_temp_write(tree, "_set_value", "tempWriteSync", "super()._set_value(int(temp))"))
    out.append("/-- accessor.py `GeckoTempStructAccessor.async_set_value` -/")
    out.append(_temp_write(tree, "async_set_value", "tempWriteAsync", "await super().async_set_value(int(temp))"))

    # ---- heater.py
    htree = T.parse("automation/heater.py")
    cls = [n for n in htree.body if isinstance(n, ast.ClassDef) and n.name == "GeckoWaterHeater"]
    if not cls:
        raise Untranslatable("heater.py: class GeckoWaterHeater not found")
    cls = cls[0]
    cc = _class_consts(cls)
    need_s = ["TEMP_CELCIUS", "TEMP_FARENHEIGHT"]
    need_i = ["MIN_TEMP_C", "MAX_TEMP_C", "MIN_TEMP_F", "MAX_TEMP_F"]
    for n in need_s:
        if not isinstance(cc.get(n), str):
            raise Untranslatable(f"heater.py: {n} is not a string literal")
    for n in need_i:
        if not isinstance(cc.get(n), int) or isinstance(cc.get(n), bool):
            raise Untranslatable(f"heater.py: {n} is not an int literal")
    lean_c = {"TEMP_CELCIUS": "heaterTempCelcius", "TEMP_FARENHEIGHT": "heaterTempFarenheight", "MIN_TEMP_C": "heaterMinTempC",
              "MAX_TEMP_C": "heaterMaxTempC", "MIN_TEMP_F": "heaterMinTempF", "MAX_TEMP_F": "heaterMaxTempF"}
    for n in need_s:
        out.append(f"/-- heater.py GeckoWaterHeater.{n} -/\ndef {lean_c[n]} : String := {T.lstr(cc[n])}")
    for n in need_i:
        out.append(f"/-- heater.py GeckoWaterHeater.{n} -/\ndef {lean_c[n]} : Int := {cc[n]}")
    out.append("")
    consts = {f"self.{n}": lean_c[n] for n in lean_c}
    consts["self._temperature_unit_accessor.value"] = "units"
    for pname, lname, ret in (("temperature_unit", "heaterTemperatureUnit", "String"), ("min_temp", "heaterMinTemp", "Int"),
                              ("max_temp", "heaterMaxTemp", "Int")):
        fn = _prop_fn(cls, pname)
        spec = FnSpec(lname, [("units", "String")], ret, mode="int", consts=consts)
        out.append(f"/-- heater.py GeckoWaterHeater.{pname} (`units` = value of the TempUnits item) -/")
        out.append(Translator(spec).function(_synth("f", ["self", "units"], _body(fn))))

    # ---- the decision ladder
    ks = _const_strings(T.parse("const.py"), ["WATER_HEATER_HEATING", "WATER_HEATER_COOLING", "WATER_HEATER_IDLE"])
    lconsts = {
        "self._heating_action_sensor": "h", "self._cooling_action_sensor": "c",
        # `.is_on` is only evaluated under `is not None` guards in the source (checked by the correspondence on all 9 flag states)
        "self._heating_action_sensor.is_on": "(h == some true)", "self._cooling_action_sensor.is_on": "(c == some true)",
        "self.current_temperature": "cur", "self.real_target_temperature": "tgt",
    }
    for k, v in ks.items():
        lconsts[f"GeckoConstants.{k}"] = T.lstr(v)
    fn = _prop_fn(cls, "current_operation")
    spec = FnSpec("heaterCurrentOperation", [("h", "Option Bool"), ("c", "Option Bool"), ("cur", "Rat"), ("tgt", "Rat")], "String",
                  mode="int", consts=lconsts)
    out.append("/-- heater.py GeckoWaterHeater.current_operation: `h`/`c` = `is_on` of the Heating / CoolingDown sensor, `none` when the\n"
               "pack has no such item; `cur`/`tgt` = current and real target temperature -/")
    out.append(Translator(spec).function(_synth("f", ["self", "h", "c", "cur", "tgt"], _body(fn))))
    for k, v in ks.items():
        out.append(f"def {'waterHeater' + k.split('_')[-1].capitalize()} : String := {T.lstr(v)}")
    out.append("\nend GeckoModel.Generated\n")
    return "\n".join(out)


GENERATORS = {"TempArith": gen_temp_arith}
