"""translator plugin for C20: facts of the threaded engine (udp_socket.py, udp_protocol_handler.py, spa.py)

What is extracted (-> lean/GeckoModel/Generated/ThreadedFacts.lean), re-done on every run:
  * numeric constants the model is parameterised by: _SENDING_THROTTLE_RATE_PER_SECOND, the first whole-microsecond gap that passes the
    throttle test (computed with Python's own float arithmetic for `1.0 / rate` and the extracted comparison operator), _SOCKET_TIMEOUT;
  * control-flow facts the hand model mirrors: which end of the send queue is popped, the order of the five calls of `_thread_func`,
    that the dispatch loop breaks at the first `can_handle`, that `handle` then `handled` run inside one try whose handler swallows,
    whether `handler.loop` / `_loop_func` in `_thread_func` are guarded by a swallowing try, whether queue_send records the destination, strictness of the timeout comparison, `timeout == 0` never times out,
    the statement order of `retry` / `loop` / `handled`, the clean-up filter, GeckoSpa._loop_func.
The statement-level facts are emitted only when the function body (docstrings and logging calls stripped) has the audited shape;
any other shape is Untranslatable: the Lean obligations then do not build and the check falls back to the search on the real code.
"""
import ast
import math
from fractions import Fraction

from py2lean import Untranslatable, find_function
import translate as T

_LOGNAMES = ("_LOGGER", "logger", "logging")


def _strip(body):
    out = []
    for st in body:
        if isinstance(st, ast.Expr) and isinstance(st.value, ast.Constant):
            continue
        if isinstance(st, ast.Expr) and isinstance(st.value, ast.Call) and ast.unparse(st.value.func).split(".")[0] in _LOGNAMES:
            continue
        for f in ("body", "orelse", "finalbody"):
            if isinstance(getattr(st, f, None), list):
                nb = _strip(getattr(st, f))
                setattr(st, f, nb if (nb or f != "body") else [ast.Pass()])
        if isinstance(st, ast.Try):
            for h in st.handlers:
                h.body = _strip(h.body) or [ast.Pass()]
        out.append(st)
    return out


def _norm(tree, qual):
    fn = find_function(tree, qual)
    if fn is None:
        raise Untranslatable(f"{qual}: not found")
    fn = ast.parse(ast.unparse(fn)).body[0]     # private copy
    fn.body = _strip(fn.body) or [ast.Pass()]
    return fn, "\n".join(ast.unparse(s) for s in fn.body)


def _class_const(tree, cls, name):
    for n in tree.body:
        if isinstance(n, ast.ClassDef) and n.name == cls:
            for st in n.body:
                if isinstance(st, ast.Assign) and ast.unparse(st.targets[0]) == name and isinstance(st.value, ast.Constant):
                    return st.value.value
    raise Untranslatable(f"{cls}.{name} is not a literal")


SHAPES = {
    "GeckoUdpSocket._process_send_requests": """if time.monotonic() - self._last_send_time <CMP> 1.0 / self._SENDING_THROTTLE_RATE_PER_SECOND:
    return
with GeckoUdpSocket._BusyLock(self):
    send_handler = None
    with self._lock:
        if self._send_handlers:
            send_handler = self._send_handlers.pop(<IDX>)
    if send_handler:
        try:
            send_bytes = send_handler[0].send_bytes
            destination = send_handler[1]
            if destination is None:
                raise AssertionError(f'Cannot have destination set to None for {send_handler}')
            if len(destination) > 2:
                destination = (destination[0], destination[1])
            send_handler[0].last_destination = destination
            self._socket.sendto(send_bytes, destination)
            self._last_send_time = time.monotonic()
        except Exception:
            pass""",
    "GeckoUdpSocket.dispatch_recevied_data": """with GeckoUdpSocket._BusyLock(self):
    receive_handler = None
    with self._lock:
        for handler in self._receive_handlers:
            if handler.can_handle(received_bytes, remote_end):
                receive_handler = handler
                break
    if receive_handler:
        try:
            receive_handler.handle(received_bytes, remote_end)
            receive_handler.handled(remote_end)
        except Exception:
            pass""",
    "GeckoUdpSocket._process_received_data": """with GeckoUdpSocket._BusyLock(self):
    try:
        received_bytes, remote_end = self._socket.recvfrom(self._MAX_PACKET_SIZE)
        self.dispatch_recevied_data(received_bytes, remote_end)
    except socket.timeout:
        return
    except OSError as e:
        return
    except Exception:
        return
    finally:
        pass""",
    "GeckoUdpSocket._cleanup_handlers": """with GeckoUdpSocket._BusyLock(self):
    remove_handlers = []
    with self._lock:
        remove_handlers = [handler for handler in self._receive_handlers if handler.should_remove_handler]
    if remove_handlers:
        pass
    with self._lock:
        self._receive_handlers = [handler for handler in self._receive_handlers if handler not in remove_handlers]
    if remove_handlers:
        pass""",
    "GeckoUdpSocket._thread_func": """while self.isopen:
<PHASES>""",
    "GeckoUdpSocket._loop_func": "pass",
    "GeckoUdpSocket.queue_send": """<RECORD>with self._lock:
    self._send_handlers.append((protocol_handler, destination))""",
    "GeckoUdpSocket.add_receive_handler": """with self._lock:
    self._receive_handlers.append(protocol_handler)""",
    "GeckoUdpProtocolHandler.handled": """self._reset_timeout()
assert self._async_on_handled is None
if self._on_handled is not None:
    self._on_handled(self, sender)""",
    "GeckoUdpProtocolHandler.age": "return time.monotonic() - self._start_time",
    "GeckoUdpProtocolHandler.has_timedout": "return self.age <TCMP> self._timeout_in_seconds if self._timeout_in_seconds > 0 else False",
    "GeckoUdpProtocolHandler._reset_timeout": "self._start_time = time.monotonic()",
    "GeckoUdpProtocolHandler.retry": """if self._retry_count == 0:
    return False
self._retry_count -= 1
self._reset_timeout()
if socket is not None:
    socket.queue_send(self, self.last_destination)
return True""",
    "GeckoUdpProtocolHandler.loop": """if not self.has_timedout:
    return
if self.retry(socket):
    return
if self._on_retry_failed is not None:
    self._on_retry_failed(self, socket)""",
    "GeckoUdpProtocolHandler._default_retry_failed_handler": "handler._should_remove_handler = True",
    "GeckoSpa._loop_func": """if self._is_connected:
    return
if self.isopen:
    if self.struct.had_at_least_one_block:
        self._final_connect()""",
}

CODES = {"_process_send_requests": 0, "_process_received_data": 1, "handler.loop": 2, "_cleanup_handlers": 3, "_loop_func": 4}
_CMP = {ast.Lt: "<", ast.LtE: "<=", ast.Gt: ">", ast.GtE: ">="}


def _lstrs(xs):
    return "[" + ", ".join(T.lstr(x) for x in xs) + "]"


def gen_threaded_facts():
    sock = T.parse("driver/udp_socket.py")
    hand = T.parse("driver/udp_protocol_handler.py")
    spa = T.parse("spa.py")
    rate = _class_const(sock, "GeckoUdpSocket", "_SENDING_THROTTLE_RATE_PER_SECOND")
    tmo = _class_const(sock, "GeckoUdpSocket", "_SOCKET_TIMEOUT")
    if not (isinstance(rate, int) and not isinstance(rate, bool) and rate > 0):
        raise Untranslatable("_SENDING_THROTTLE_RATE_PER_SECOND is not a positive int literal")
    if not (isinstance(tmo, (int, float)) and tmo > 0):
        raise Untranslatable("_SOCKET_TIMEOUT is not a positive literal")
    # ---- throttle comparison and the popped end of the queue
    fn, text = _norm(sock, "GeckoUdpSocket._process_send_requests")
    first = fn.body[0]
    if not (isinstance(first, ast.If) and isinstance(first.test, ast.Compare) and len(first.test.ops) == 1):
        raise Untranslatable("_process_send_requests does not start with the throttle test")
    op = type(first.test.ops[0])
    if op not in (ast.Lt, ast.LtE):
        raise Untranslatable(f"throttle test uses {op.__name__}: the engine would send only while FASTER than the rate")
    pops = [n for n in ast.walk(fn) if isinstance(n, ast.Call) and isinstance(n.func, ast.Attribute) and n.func.attr == "pop"
            and ast.unparse(n.func.value) == "self._send_handlers"]
    if len(pops) != 1:
        raise Untranslatable("expected exactly one self._send_handlers.pop(...)")
    idx_src = ast.unparse(pops[0].args[0]) if pops[0].args else ""
    try:
        idx = int(idx_src) if idx_src else -1
    except ValueError:
        raise Untranslatable(f"pop index {idx_src!r} is not a literal")
    want = SHAPES["GeckoUdpSocket._process_send_requests"].replace("<CMP>", _CMP[op]).replace("<IDX>", idx_src)
    if text != want:
        raise Untranslatable("GeckoUdpSocket._process_send_requests: body is not the audited shape")
    thr = Fraction(1.0 / rate)           # the double the code compares with, exactly
    g = math.ceil(thr * 10 ** 6)         # smallest whole-microsecond gap with not (gap < thr)
    if op is ast.LtE and Fraction(g, 10 ** 6) == thr:
        g += 1
    # cross-check with the float comparison Python itself performs on an exact clock
    def throttled(us):
        gap = Fraction(us, 10 ** 6)
        return (gap < 1.0 / rate) if op is ast.Lt else (gap <= 1.0 / rate)
    if throttled(g) or not throttled(g - 1):
        raise Untranslatable("internal: throttle gap computation disagrees with Python's comparison")
    # ---- order of the phases
    fn, text = _norm(sock, "GeckoUdpSocket._thread_func")
    if not (len(fn.body) == 1 and isinstance(fn.body[0], ast.While) and ast.unparse(fn.body[0].test) == "self.isopen" and not fn.body[0].orelse):
        raise Untranslatable("_thread_func is not `while self.isopen:`")
    phases, loop_guarded, loopfunc_guarded = [], False, False
    swallow = "try:\n    {}\nexcept Exception:\n    pass"
    for st in fn.body[0].body:
        src = ast.unparse(st)
        if src in ("self._process_send_requests()", "self._process_received_data()", "self._cleanup_handlers()", "self._loop_func()"):
            phases.append(src[5:-2])
        elif src == swallow.format("self._loop_func()"):
            phases.append("_loop_func")
            loopfunc_guarded = True
        elif src == "for handler in self._receive_handlers:\n    handler.loop(self)":
            phases.append("handler.loop")
        elif src == "for handler in self._receive_handlers:\n" + "\n".join("    " + ln for ln in swallow.format("handler.loop(self)").splitlines()):
            phases.append("handler.loop")
            loop_guarded = True          # one try per handler: the next handler is still looped
        else:
            raise Untranslatable(f"_thread_func: unexpected statement {src.splitlines()[0]!r}")
    # ---- timeout comparison
    fn, text = _norm(hand, "GeckoUdpProtocolHandler.has_timedout")
    cmps = [n for n in ast.walk(fn) if isinstance(n, ast.Compare) and ast.unparse(n.left) == "self.age"]
    if len(cmps) != 1 or type(cmps[0].ops[0]) not in (ast.Gt, ast.GtE):
        raise Untranslatable("has_timedout: no `self.age > / >= timeout` comparison")
    tcmp = type(cmps[0].ops[0])
    if text != SHAPES["GeckoUdpProtocolHandler.has_timedout"].replace("<TCMP>", _CMP[tcmp]):
        raise Untranslatable("GeckoUdpProtocolHandler.has_timedout: body is not the audited shape")
    # ---- everything else: exact audited shape
    _, text = _norm(sock, "GeckoUdpSocket.queue_send")
    rec = "if protocol_handler.last_destination is None:\n    protocol_handler.last_destination = destination\n"
    if text == SHAPES["GeckoUdpSocket.queue_send"].replace("<RECORD>", rec):
        records = True
    elif text == SHAPES["GeckoUdpSocket.queue_send"].replace("<RECORD>", ""):
        records = False
    else:
        raise Untranslatable("GeckoUdpSocket.queue_send: body is not an audited shape")
    for qual, tree in (("GeckoUdpSocket.dispatch_recevied_data", sock), ("GeckoUdpSocket._process_received_data", sock),
                       ("GeckoUdpSocket._cleanup_handlers", sock), ("GeckoUdpSocket._loop_func", sock),
                       ("GeckoUdpSocket.add_receive_handler", sock), ("GeckoUdpProtocolHandler.handled", hand), ("GeckoUdpProtocolHandler.age", hand),
                       ("GeckoUdpProtocolHandler._reset_timeout", hand), ("GeckoUdpProtocolHandler.retry", hand), ("GeckoUdpProtocolHandler.loop", hand),
                       ("GeckoUdpProtocolHandler._default_retry_failed_handler", hand), ("GeckoSpa._loop_func", spa)):
        _, text = _norm(tree, qual)
        if text != SHAPES[qual]:
            raise Untranslatable(f"{qual}: body is not the audited shape")
    # the constructor facts the model's `fresh` handler state mirrors
    init, _ = _norm(hand, "GeckoUdpProtocolHandler.__init__")
    need = ["self.last_destination = None", "self._start_time = time.monotonic()", "self._timeout_in_seconds = kwargs.get('timeout', 0)",
            "self._retry_count = kwargs.get('retry_count', 0)", "self._on_retry_failed = kwargs.get('on_retry_failed', None)",
            "self._should_remove_handler = False"]
    have = [ast.unparse(s) for s in init.body]
    for n in need:
        if n not in have:
            raise Untranslatable(f"GeckoUdpProtocolHandler.__init__: missing `{n}`")
    sinit, _ = _norm(sock, "GeckoUdpSocket.__init__")
    if "self._last_send_time = time.monotonic()" not in [ast.unparse(s) for s in sinit.body]:
        raise Untranslatable("GeckoUdpSocket.__init__ does not stamp _last_send_time")
    out = [T.HEADER, "namespace GeckoModel.Generated\n",
           f"/-- GeckoUdpSocket._SENDING_THROTTLE_RATE_PER_SECOND -/\ndef throttleRate : Nat := {rate}\n",
           f"/-- `_process_send_requests` returns early while `now - last_send {_CMP[op]} 1.0 / rate`.  Time unit: MICROSECONDS.  `1.0 / {rate}` is the IEEE double\n"
           f"{float(1.0 / rate)!r} = {thr.numerator}/{thr.denominator}; on an exact clock the first whole-microsecond gap for which the test is false is this number\n"
           f"(computed by the translator with Python's own comparison `Fraction(gap_us, 10**6) {_CMP[op]} 1.0 / rate`) -/\ndef throttleMinGapUs : Nat := {g}\n",
           f"/-- GeckoUdpSocket._SOCKET_TIMEOUT in microseconds (upper bound of one blocking recvfrom) -/\ndef socketTimeoutUs : Nat := {round(tmo * 10 ** 6)}\n",
           f"/-- `self._send_handlers.pop(0)`: the queue is consumed from the front -/\ndef sendPopsFront : Bool := {'true' if idx == 0 else 'false'}\n",
           f"/-- the statements of one `_thread_func` iteration, in source order; codes: 0 _process_send_requests, 1 _process_received_data,\n"
           f"2 `for handler in self._receive_handlers: handler.loop(self)`, 3 _cleanup_handlers, 4 _loop_func.  `engineIter` runs the coded phases in THIS order -/\n"
           f"def threadPhases : List String := {_lstrs(phases)}\ndef threadPhaseCodes : List Nat := [{', '.join(str(CODES[p]) for p in phases)}]\n",
           "/-- in `_thread_func`: is `handler.loop(self)` wrapped, per handler, in `try ... except Exception: log` ? is `self._loop_func()` ? -/\n"
           f"def loopPhaseGuarded : Bool := {'true' if loop_guarded else 'false'}\ndef loopFuncGuarded : Bool := {'true' if loopfunc_guarded else 'false'}\n",
           "/-- does `queue_send` start with `if protocol_handler.last_destination is None: protocol_handler.last_destination = destination` ? -/\n"
           f"def queueSendRecordsDest : Bool := {'true' if records else 'false'}\n",
           f"/-- has_timedout: `self.age {_CMP[tcmp]} self._timeout_in_seconds if self._timeout_in_seconds > 0 else False` -/\n"
           f"def timeoutStrict : Bool := {'true' if tcmp is ast.Gt else 'false'}\ndef timeoutZeroNever : Bool := true\n",
           "/-- audited statement shapes (exact match after stripping docstrings and logging): dispatch breaks at the first can_handle; handle then handled\n"
           "inside one try whose `except Exception` swallows; handled = _reset_timeout, then on_handled; retry = return False when the count is 0, decrement,\n"
           "_reset_timeout, queue_send(self, self.last_destination), return True; loop = return unless timed out, return if retry, else on_retry_failed;\n"
           "the default on_retry_failed sets _should_remove_handler; clean-up keeps the handlers whose should_remove_handler is false; the send path\n"
           "reads send_bytes, rejects a None destination, records last_destination, sendto, stamps _last_send_time, all inside a swallowing try;\n"
           "a new handler has last_destination None, start time now, remove flag False; a new socket stamps _last_send_time now -/\n"
           "def auditedShapes : List String := " + _lstrs(sorted(SHAPES)) + "\n",
           "end GeckoModel.Generated\n"]
    return "\n".join(out)


GENERATORS = {"ThreadedFacts": gen_threaded_facts}
