"""translator plugin for C09: what drives recovery - the sequence pump's guards and the ping-received reset rule."""
import ast

from py2lean import Untranslatable, find_function, _dotted
import translate as T


def _states_in(node):
    return [n.attr for n in ast.walk(node) if isinstance(n, ast.Attribute) and _dotted(n.value) == "GeckoSpaState"]


def gen_recovery_facts():
    man = T.parse("async_spa_manager.py")
    pump = find_function(man, "GeckoAsyncSpaMan._sequence_pump")
    he = find_function(man, "GeckoAsyncSpaMan._handle_event")
    ifs = [n for n in ast.walk(pump) if isinstance(n, ast.If)]
    guards = []
    for n in ifs:
        calls = [_dotted(c.func) or "" for c in ast.walk(n) if isinstance(c, ast.Call)]
        act = "locate" if any(c.endswith("async_locate_spas") for c in calls) else ("connect" if any(c.endswith("async_connect") for c in calls) else None)
        if act:
            guards.append((act, _states_in(n.test), ast.unparse(n.test)))
    # a third rule: a state from which the pump RESETS after a pause (so that the next turn locates again)
    retry_states = []
    for n in ifs:
        calls = [_dotted(c.func) or "" for c in ast.walk(n) if isinstance(c, ast.Call)]
        if any(c.endswith("async_reset") for c in calls) and not any(c.endswith("async_locate_spas") or c.endswith("async_connect") for c in calls):
            if "self._spa_identifier is not None" not in ast.unparse(n.test):
                continue
            inner = [m for m in ast.walk(n) if isinstance(m, ast.If) and m is not n and any((_dotted(c.func) or "").endswith("async_reset")
                                                                                          for c in ast.walk(m) if isinstance(c, ast.Call))]
            # the reset must be guarded by a re-check of the same states after the pause (the state may have changed meanwhile)
            if len(inner) != 1 or _states_in(inner[0].test) != _states_in(n.test):
                raise Untranslatable("_sequence_pump: retry rule does not re-check its state after the pause")
            retry_states = _states_in(n.test)
    if sorted(g[0] for g in guards) != ["connect", "locate"]:
        raise Untranslatable("_sequence_pump: expected one locate guard and one connect guard")
    loc = [g for g in guards if g[0] == "locate"][0]
    con = [g for g in guards if g[0] == "connect"][0]
    if "self._spa_descriptors is None" not in loc[2] or "self._facade is None" not in con[2] or "self._spa_identifier is not None" not in con[2]:
        raise Untranslatable("_sequence_pump guards changed shape")
    # the ping-received branch of _handle_event
    reset_states = None
    for n in ast.walk(he):
        if isinstance(n, ast.If) and "RUNNING_PING_RECEIVED" in ast.unparse(n.test):
            inner = [m for m in n.body if isinstance(m, ast.If)]
            if len(inner) == 1 and any((_dotted(c.func) or "").endswith("async_reset") for c in ast.walk(inner[0]) if isinstance(c, ast.Call)):
                reset_states = _states_in(inner[0].test)
    if reset_states is None:
        raise Untranslatable("_handle_event: ping-received branch does not reset from a tuple of states")
    # state set on the events that put the manager into an error state
    def target_of(event):
        for n in ast.walk(he):
            if isinstance(n, ast.If) and event in ast.unparse(n.test) and "event" in ast.unparse(n.test):
                for m in ast.walk(n):
                    if isinstance(m, ast.Assign) and ast.unparse(m.targets[0]) == "self._spa_state":
                        return _states_in(m.value)[0]
        return "?"
    # the retry-exceeded branch: is the state change guarded by "there is a spa"? (a connection attempt abandoned by a reset
    # still reports its failure after the manager dropped its spa)
    needs_spa = None
    for n in ast.walk(he):
        if isinstance(n, ast.If) and "CONNECTION_PROTOCOL_RETRY_COUNT_EXCEEDED" in ast.unparse(n.test) and "event" in ast.unparse(n.test):
            body = [b for b in n.body if not (isinstance(b, ast.Expr) and isinstance(b.value, ast.Constant))]
            if len(body) == 1 and isinstance(body[0], ast.Assign) and ast.unparse(body[0].targets[0]) == "self._spa_state":
                needs_spa = False
            elif (len(body) == 1 and isinstance(body[0], ast.If) and not body[0].orelse and ast.unparse(body[0].test) == "self._spa is not None"
                  and len(body[0].body) == 1 and isinstance(body[0].body[0], ast.Assign) and ast.unparse(body[0].body[0].targets[0]) == "self._spa_state"):
                needs_spa = True
            else:
                raise Untranslatable("_handle_event: retry-exceeded branch is neither a state assignment nor one guarded by `self._spa is not None`")
            break
    if needs_spa is None:
        raise Untranslatable("_handle_event: no retry-exceeded branch")
    # the LOCATING_FINISHED branch: the states from which it moves the manager ([] = from any state)
    fin_guard, found_fin = [], False
    for n in ast.walk(he):
        if isinstance(n, ast.If) and "LOCATING_FINISHED" in ast.unparse(n.test) and "event" in ast.unparse(n.test):
            found_fin = True
            body = [b for b in n.body if not (isinstance(b, ast.Expr) and isinstance(b.value, ast.Constant))]
            if len(body) == 1 and isinstance(body[0], ast.If):
                fin_guard = _states_in(body[0].test)
                if not fin_guard or body[0].orelse:
                    raise Untranslatable("_handle_event: LOCATING_FINISHED branch has a guard that is not a test on states")
            elif not (len(body) == 1 and isinstance(body[0], ast.Assign)):
                raise Untranslatable("_handle_event: LOCATING_FINISHED branch changed shape")
            break
    if not found_fin:
        raise Untranslatable("_handle_event: no LOCATING_FINISHED branch")
    # async_locate_spas stores the descriptors before it announces LOCATING_FINISHED, and announces it in a finally
    als = find_function(man, "GeckoAsyncSpaMan.async_locate_spas")
    src_als = ast.unparse(als)
    if src_als.find("self._spa_descriptors = locator.spas") < 0 or src_als.find("self._spa_descriptors = locator.spas") > src_als.find("LOCATING_FINISHED"):
        raise Untranslatable("async_locate_spas: descriptors are not stored before LOCATING_FINISHED")
    # catches of the pump
    survives = False
    for n in ast.walk(pump):
        if isinstance(n, ast.Try):
            for h in n.handlers:
                names = ast.unparse(h.type) if h.type is not None else "BaseException"
                if ("Exception" in names and "Cancelled" not in names) and not any(isinstance(x, ast.Raise) for x in ast.walk(h)):
                    survives = True
    # async_reset: a statement `self._spa_descriptors = None` after the last statement that awaits (the client's handlers run inside
    # those awaits, and the sequence pump - another task - may complete a discovery meanwhile)
    rst = find_function(man, "GeckoAsyncSpaMan.async_reset")
    body = [b for b in rst.body if not (isinstance(b, ast.Expr) and isinstance(b.value, ast.Constant))]
    aw_idx = [i for i, b in enumerate(body) if any(isinstance(x, ast.Await) for x in ast.walk(b))]
    clr_idx = [i for i, b in enumerate(body) if isinstance(b, ast.Assign) and ast.unparse(b) == "self._spa_descriptors = None"]
    if not aw_idx or not clr_idx:
        raise Untranslatable("async_reset: no await or no `self._spa_descriptors = None`")
    forgets_last = max(clr_idx) > max(aw_idx)
    lst = lambda xs: "[" + ", ".join(T.lstr(x) for x in xs) + "]"
    out = [T.HEADER, "namespace GeckoModel.Generated\n",
           f"/-- _sequence_pump locates when the state is one of these (and there are no descriptors) -/\ndef pumpLocateStates : List String := {lst(loc[1])}",
           f"/-- _sequence_pump connects when the state is one of these (identifier configured, no facade) -/\ndef pumpConnectStates : List String := {lst(con[1])}",
           f"/-- _sequence_pump resets (after a pause) when the state is one of these: the next turn searches again -/\ndef pumpRetryStates : List String := {lst(retry_states)}",
           f"/-- a received ping resets the manager when the state is one of these -/\ndef pingResetStates : List String := {lst(reset_states)}",
           f"def stateOnSpaNotFound : String := {T.lstr(target_of('SPA_NOT_FOUND'))}",
           f"def stateOnPingNoResponse : String := {T.lstr(target_of('RUNNING_PING_NO_RESPONSE'))}",
           f"def stateOnRfError : String := {T.lstr(target_of('ERROR_RF_ERROR'))}",
           f"def stateOnRetryExceeded : String := {T.lstr(target_of('CONNECTION_PROTOCOL_RETRY_COUNT_EXCEEDED'))}",
           f"def stateOnLocatingFinished : String := {T.lstr(target_of('LOCATING_FINISHED'))}",
           f"def stateOnLocatingStarted : String := {T.lstr(target_of('LOCATING_STARTED'))}",
           f"/-- LOCATING_FINISHED moves the manager only from these states ([] = from any state) -/\ndef locatingFinishedGuard : List String := {lst(fin_guard)}",
           f"/-- the retry-exceeded events change the state only while the manager has a spa -/\ndef retryExceededNeedsSpa : Bool := {'true' if needs_spa else 'false'}",
           f"def pumpCatchesExceptions : Bool := {'true' if survives else 'false'}",
           f"/-- async_reset clears the descriptors (again) after its last await -/\ndef resetForgetsDescriptorsLast : Bool := {'true' if forgets_last else 'false'}",
           "end GeckoModel.Generated\n"]
    return "\n".join(out)


GENERATORS = {"RecoveryFacts": gen_recovery_facts}
