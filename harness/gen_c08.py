"""translator plugin for C08: the lifecycle of GeckoAsyncSpaMan as data.

LifecycleEnums  - members of GeckoSpaState / GeckoSpaEvent (+ values) and GeckoSpaState.to_string as a total function
LifecycleTable  - `_handle_event` (prologue, the if/elif chain in source order, epilogue), `async_reset`,
                  `GeckoAsyncSpa.disconnect`, the try/finally shape of `async_locate_spas` / `async_connect_to_spa`,
                  `async_connect`'s not-found event, the event sequences of `GeckoAsyncSpa._connect`, the events the spa
                  raises at run time, what each sensor/button constructor dereferences, the initial state.

Every statement must be inside the vocabulary of lean/GeckoModel/Model/LifecycleVocab.lean; anything else raises
Untranslatable (the obligation breaks and the check falls back to the search on the real manager).
"""
import ast

from py2lean import Untranslatable, find_function
import translate as T

MAN = "async_spa_manager.py"
CLS = "GeckoAsyncSpaMan"


# ------------------------------------------------------------------------------------------------ small AST helpers
def _u(n):
    return ast.unparse(n)


def _strip_doc(body):
    return [st for st in body if not (isinstance(st, ast.Expr) and isinstance(st.value, ast.Constant) and isinstance(st.value.value, str))]


def _is_log(st):
    return isinstance(st, ast.Expr) and isinstance(st.value, ast.Call) and _u(st.value.func).startswith("_LOGGER.")


def _enum_ref(n, enum):
    """GeckoSpaEvent.X -> 'X'"""
    if isinstance(n, ast.Attribute) and isinstance(n.value, ast.Name) and n.value.id == enum:
        return n.attr
    return None


def _await_call(st):
    """`await f(args)` expression statement -> the Call, else None"""
    if isinstance(st, ast.Expr) and isinstance(st.value, ast.Await) and isinstance(st.value.value, ast.Call):
        return st.value.value
    return None


def _emit_of(st, via):
    """`await self.<via>(GeckoSpaEvent.X, **kw)` -> 'X'"""
    c = _await_call(st)
    if c is not None and _u(c.func) == via and c.args and _enum_ref(c.args[0], "GeckoSpaEvent") and len(c.args) == 1 \
            and all(k.arg is not None for k in c.keywords):
        return _enum_ref(c.args[0], "GeckoSpaEvent")
    return None


def enum_members(rel, cls):
    tree = T.parse(rel)
    node = find_function(tree, cls)
    out = []
    for st in node.body:
        if isinstance(st, ast.Assign) and len(st.targets) == 1 and isinstance(st.targets[0], ast.Name):
            if isinstance(st.value, ast.Constant) and isinstance(st.value.value, int):
                out.append((st.targets[0].id, st.value.value))
            elif st.targets[0].id == "CallBack":
                continue
            else:
                raise Untranslatable(f"{cls}.{st.targets[0].id}: not an int member")
    if not out or len({v for _, v in out}) != len(out):
        raise Untranslatable(f"{cls}: empty or duplicate-valued enum (aliases)")
    return out


def state_text(states):
    """GeckoSpaState.to_string: if/elif chain of `state == GeckoSpaState.X: return "lit"`, else f"{state}" """
    fn = find_function(T.parse("spa_state.py"), "GeckoSpaState.to_string")
    body = _strip_doc(fn.body)
    if len(body) != 1 or not isinstance(body[0], ast.If):
        raise Untranslatable("to_string: not a single if chain")
    out, node = {}, body[0]
    while True:
        t = node.test
        if not (isinstance(t, ast.Compare) and _u(t.left) == "state" and len(t.ops) == 1 and isinstance(t.ops[0], ast.Eq)
                and _enum_ref(t.comparators[0], "GeckoSpaState")):
            raise Untranslatable(f"to_string: test `{_u(t)}`")
        if not (len(node.body) == 1 and isinstance(node.body[0], ast.Return) and isinstance(node.body[0].value, ast.Constant)
                and isinstance(node.body[0].value.value, str)):
            raise Untranslatable("to_string: branch does not return a literal")
        out.setdefault(_enum_ref(t.comparators[0], "GeckoSpaState"), node.body[0].value.value)
        if len(node.orelse) == 1 and isinstance(node.orelse[0], ast.If):
            node = node.orelse[0]
            continue
        if not (len(node.orelse) == 1 and isinstance(node.orelse[0], ast.Return) and _u(node.orelse[0].value) == "f'{state}'"):
            raise Untranslatable("to_string: default is not f'{state}'")
        break
    return {s: out.get(s, f"GeckoSpaState.{s}") for s, _ in states}


def gen_enums():
    states = enum_members("spa_state.py", "GeckoSpaState")
    events = enum_members("spa_events.py", "GeckoSpaEvent")
    text = state_text(states)
    o = [T.HEADER, "namespace GeckoModel.Lifecycle\n"]
    for nm, mem, src in (("SpaState", states, "spa_state.py: GeckoSpaState"), ("Event", events, "spa_events.py: GeckoSpaEvent")):
        o.append(f"/-- {src} -/\ninductive {nm}\n" + "\n".join(f"  | {m}" for m, _ in mem) + "\nderiving DecidableEq, Repr\n")
        o.append(f"def {nm}.all : List {nm} := [" + ", ".join(f".{m}" for m, _ in mem) + "]\n")
        o.append(f"def {nm}.name : {nm} → String\n" + "\n".join(f"  | .{m} => {T.lstr(m)}" for m, _ in mem) + "\n")
        o.append(f"def {nm}.value : {nm} → Nat\n" + "\n".join(f"  | .{m} => {v}" for m, v in mem) + "\n")
    o.append("/-- spa_state.py: GeckoSpaState.to_string -/\ndef stateText : SpaState → String\n" +
             "\n".join(f"  | .{m} => {T.lstr(text[m])}" for m, _ in states) + "\n")
    o.append("end GeckoModel.Lifecycle\n")
    return "\n".join(o)


# ------------------------------------------------------------------------------------------------ _handle_event
CREATED = {"StatusSensor": ("_status_sensor", "statusSensor"), "ReconnectButton": ("_reconnect_button", "reconnectButton"),
           "PingSensor": ("_ping_sensor", "pingSensor"), "RadioConnectionSensor": ("_radio_sensor", "radioSensor"),
           "RadioChannelSensor": ("_channel_sensor", "channelSensor")}


def _action(st):
    """one statement of a branch -> Lean Action term"""
    if isinstance(st, ast.Assign) and len(st.targets) == 1:
        tgt, val = _u(st.targets[0]), st.value
        if tgt == "self._spa_state" and _enum_ref(val, "GeckoSpaState"):
            return f".setState .{_enum_ref(val, 'GeckoSpaState')}"
        if isinstance(val, ast.Call) and _u(val.func).startswith(f"{CLS}.") and [_u(a) for a in val.args] == ["self"] and not val.keywords:
            k = _u(val.func)[len(CLS) + 1:]
            if k in CREATED and CREATED[k][0] == tgt[len("self."):]:
                return f".create .{CREATED[k][1]}"
        raise Untranslatable(f"_handle_event: assignment `{_u(st)}`")
    e = _emit_of(st, "self._handle_event")
    if e:
        return f".emit .{e}"
    src = _u(st)
    fixed = {"await self.async_reset()": ".reset",
             "self._radio_sensor.set_signal(self._spa.signal)": ".refreshRadio",
             "self._channel_sensor.set_channel(self._spa.channel)": ".refreshChannel",
             "assert self.facade is not None": ".assertFacade",
             "assert self._spa is not None": ".assertSpa",
             "self.facade._water_care.change_watercare_mode(await self._spa.async_get_watercare())": ".wcRefresh"}
    if src in fixed:
        return fixed[src]
    raise Untranslatable(f"_handle_event: statement outside the vocabulary: `{src[:80]}`")


def _guard(test):
    src = _u(test)
    if src == "self._facade is not None":
        return ".facadeSome"
    if src == "self._spa is not None":
        return ".spaSome"
    if isinstance(test, ast.Compare) and _u(test.left) == "self._spa_state" and len(test.ops) == 1:
        c = test.comparators[0]
        if isinstance(test.ops[0], ast.Eq) and _enum_ref(c, "GeckoSpaState"):
            return f".stateIn [.{_enum_ref(c, 'GeckoSpaState')}]"
        if isinstance(test.ops[0], ast.In) and isinstance(c, (ast.Tuple, ast.List)) and all(_enum_ref(x, "GeckoSpaState") for x in c.elts):
            return ".stateIn [" + ", ".join("." + _enum_ref(x, "GeckoSpaState") for x in c.elts) + "]"
    raise Untranslatable(f"_handle_event: guard `{src}`")


def _branch(test, body):
    if not (isinstance(test, ast.Compare) and _u(test.left) == "event" and len(test.ops) == 1):
        raise Untranslatable(f"_handle_event: chain test `{_u(test)}`")
    c = test.comparators[0]
    if isinstance(test.ops[0], ast.Eq) and _enum_ref(c, "GeckoSpaEvent"):
        evs = [_enum_ref(c, "GeckoSpaEvent")]
    elif isinstance(test.ops[0], ast.In) and isinstance(c, (ast.Tuple, ast.List)) and all(_enum_ref(x, "GeckoSpaEvent") for x in c.elts):
        evs = [_enum_ref(x, "GeckoSpaEvent") for x in c.elts]
    else:
        raise Untranslatable(f"_handle_event: chain test `{_u(test)}`")
    body = _strip_doc(body)
    guard = "none"
    if len(body) == 1 and isinstance(body[0], ast.If):
        if body[0].orelse:
            raise Untranslatable("_handle_event: guarded branch with an else")
        guard = f"some ({_guard(body[0].test)})"
        body = _strip_doc(body[0].body)
    if any(isinstance(st, (ast.If, ast.For, ast.While, ast.Try, ast.With, ast.Return, ast.Raise)) for st in body):
        raise Untranslatable(f"_handle_event: nested control flow in the branch for {evs}")
    acts = [_action(st) for st in body]
    return "    { events := [" + ", ".join("." + e for e in evs) + f"], guard := {guard},\n      actions := [" + ", ".join(acts) + "] }"


def handle_event_parts():
    fn = find_function(T.parse(MAN), f"{CLS}._handle_event")
    if [a.arg for a in fn.args.args] != ["self", "event"] or fn.args.kwarg is None:
        raise Untranslatable("_handle_event: signature")
    body = [st for st in _strip_doc(fn.body) if not _is_log(st)]
    if len(body) != 4 or not all(isinstance(b, ast.If) for b in body[:3]):
        raise Untranslatable(f"_handle_event: expected prologue-if, chain-if, sensor-if, client call; found {len(body)} statements")
    pro, chain, touch, deliver = body
    if _u(pro.test) != "self._status_sensor is None and self._spa_identifier is not None and (self._spa_name is not None)" or pro.orelse:
        raise Untranslatable(f"_handle_event: prologue test `{_u(pro.test)}`")
    prologue = [_action(st) for st in _strip_doc(pro.body)]
    if not prologue or prologue[0] != ".create .statusSensor":
        raise Untranslatable("_handle_event: prologue does not create the status sensor first")
    branches, node = [], chain
    while True:
        branches.append(_branch(node.test, node.body))
        if len(node.orelse) == 1 and isinstance(node.orelse[0], ast.If):
            node = node.orelse[0]
            continue
        if node.orelse:
            raise Untranslatable("_handle_event: the chain has a final else")
        break
    if not (_u(touch.test) == "self._status_sensor is not None" and not touch.orelse and len(touch.body) == 1
            and _u(touch.body[0]) == "self._status_sensor.on_event(event)"):
        raise Untranslatable("_handle_event: status sensor update")
    if _u(deliver) != "await self.handle_event(event, **kwargs)":
        raise Untranslatable(f"_handle_event: client call `{_u(deliver)}`")
    return prologue, branches


def check_status_sensor():
    tree = T.parse(MAN)
    fn = find_function(tree, f"{CLS}.StatusSensor.on_event")
    got = [_u(st) for st in _strip_doc(fn.body)]
    want = ["self._last_event = event", "self._last_state = self._spaman.spa_state",
            "self._state = GeckoSpaState.to_string(self.spa_state)", "self._on_change()"]
    if got != want:
        raise Untranslatable(f"StatusSensor.on_event: {got}")
    for prop, ret in (("StatusSensor.state", "self._state"), ("StatusSensor.spa_state", "self._last_state"), ("spa_state", "self._spa_state"),
                      ("facade", "self._facade")):
        b = _strip_doc(find_function(tree, f"{CLS}.{prop}").body)
        if len(b) != 1 or _u(b[0]) != f"return {ret}":
            raise Untranslatable(f"{prop}: not `return {ret}`")
    init = find_function(tree, f"{CLS}.StatusSensor.__init__")
    if "self._state = 'Unknown'" not in [_u(st) for st in init.body]:
        raise Untranslatable("StatusSensor.__init__: initial text")


def needs():
    tree = T.parse(MAN)
    out = []
    for k, (_, lean) in CREATED.items():
        src = _u(find_function(tree, f"{CLS}.{k}.__init__"))
        n = []
        if "spaman.unique_id" in src:
            n.append(".ident")
        if "spaman.spa_name" in src:
            n.append(".name")
        if "spaman._spa" in src or "_spaman._spa" in src:
            n.append(".spa")
        out.append(f"(.{lean}, [{', '.join(n)}])")
    for prop, field in (("unique_id", "_spa_identifier"), ("spa_name", "_spa_name")):
        b = [_u(st) for st in _strip_doc(find_function(tree, f"{CLS}.{prop}").body)]
        if not b or b[0] != f"assert self.{field} is not None":
            raise Untranslatable(f"{prop}: does not start with the assert on {field}")
    return out


# ------------------------------------------------------------------------------------------------ async_reset / disconnect
def reset_prog():
    fn = find_function(T.parse(MAN), f"{CLS}.async_reset")
    plain = {"self._spa_descriptors = None": ".clearDesc", "await self._facade.disconnect()": ".facadeDisconnect",
             "self._facade = None": ".clearFacade", "await self._spa.disconnect()": ".spaDisconnect", "self._spa = None": ".clearSpa"}
    guards = {"self._facade is not None": ".facadeSome", "self._spa is not None": ".spaSome"}

    def op(st):
        s = _u(st)
        if s in plain:
            return plain[s]
        if isinstance(st, ast.Assign) and _u(st.targets[0]) == "self._spa_state" and _enum_ref(st.value, "GeckoSpaState"):
            return f".setState .{_enum_ref(st.value, 'GeckoSpaState')}"
        raise Untranslatable(f"async_reset: statement `{s[:80]}`")
    out = []
    for st in [s for s in _strip_doc(fn.body) if not _is_log(s)]:
        if isinstance(st, ast.If):
            if st.orelse or _u(st.test) not in guards:
                raise Untranslatable(f"async_reset: `if {_u(st.test)}`")
            out.append(f"    {{ guard := some {guards[_u(st.test)]}, ops := [" + ", ".join(op(x) for x in st.body if not _is_log(x)) + "] }")
        else:
            out.append(f"    {{ guard := none, ops := [{op(st)}] }}")
    return out


def disconnect_prog():
    fn = find_function(T.parse("async_spa.py"), "GeckoAsyncSpa.disconnect")
    out = []
    for st in [s for s in _strip_doc(fn.body) if not _is_log(s)]:
        s = _u(st)
        e = _emit_of(st, "self._event_handler")
        if s == "self._is_connected = False":
            out.append(".setConnFalse")
        elif s == "self._disconnected = True":
            continue        # the flag `_connect` reads right after its endpoint creation (see connect_paths: .checkAlive)
        elif e:
            out.append(f".raiseEvent .{e}")
        elif s == "self.struct.reset()":
            out.append(".structReset")
        elif s == "self._taskman.cancel_key_tasks('SPA')":
            out.append(".cancelTasks")
        elif isinstance(st, ast.If) and _u(st.test) == "self._protocol is not None" and not st.orelse \
                and [_u(x) for x in st.body] == ["self._protocol.disconnect()", "self._protocol = None"]:
            out.append(".closeProtocol")
        elif isinstance(st, ast.If) and _u(st.test) == "self._transport is not None" and not st.orelse \
                and [_u(x) for x in st.body] == ["self._transport.close()"]:
            out.append(".closeTransport")
        elif s == "self._transport = None":
            out.append(".clearTransport")
        elif s == "self.unwatch_all()":
            out.append(".unwatchAll")
        else:
            raise Untranslatable(f"GeckoAsyncSpa.disconnect: statement `{s[:80]}`")
    return out


# ------------------------------------------------------------------------------------------------ the two phases
def _pop(st, phase):
    s = _u(st)
    e = _emit_of(st, "self._handle_event")
    if e:
        return [f".emit .{e}"]
    fixed = {"assert self._facade is None": [".assertNoFacade"], "self._spa_name = spa_descriptor.name": [".setName"],
             "self._spa = GeckoAsyncSpa(self._client_id, spa_descriptor, self, self._handle_event)": [".newSpa"],
             "await self._spa.connect()": [".spaConnect"], "await locator.discover()": [".discover"],
             "self._spa_descriptors = locator.spas": [".storeDescriptors"], "del locator": []}
    if s in fixed:
        return fixed[s]
    if isinstance(st, ast.Assign) and _u(st.targets[0]) == "locator" and isinstance(st.value, ast.Call) and _u(st.value.func) == "GeckoAsyncLocator" \
            and [_u(a) for a in st.value.args] == ["self", "self._handle_event"]:
        return []
    if isinstance(st, ast.If) and not st.orelse and isinstance(st.test, ast.Compare) and _u(st.test.left) == "self._spa_state" \
            and isinstance(st.test.ops[0], ast.Eq) and _enum_ref(st.test.comparators[0], "GeckoSpaState") \
            and [_u(x) for x in st.body] == ["self._facade = GeckoAsyncFacade(self._spa, self)"]:
        return [f".buildFacadeIf .{_enum_ref(st.test.comparators[0], 'GeckoSpaState')}"]
    raise Untranslatable(f"{phase}: statement `{s[:90]}`")


def phase_prog(name, ret):
    fn = find_function(T.parse(MAN), f"{CLS}.{name}")
    body = [s for s in _strip_doc(fn.body) if not _is_log(s)]
    tries = [i for i, s in enumerate(body) if isinstance(s, ast.Try)]
    if len(tries) != 1:
        raise Untranslatable(f"{name}: expected exactly one try statement")
    i = tries[0]
    tr = body[i]
    if tr.handlers or tr.orelse or not tr.finalbody:
        raise Untranslatable(f"{name}: the try has except/else clauses or no finally")
    if len(body) != i + 2 or _u(body[i + 1]) != f"return {ret}":
        raise Untranslatable(f"{name}: statements after the try are not `return {ret}`")
    sec = lambda sts: "[" + ", ".join(x for st in sts if not _is_log(st) for x in _pop(st, name)) + "]"  # noqa
    return f"{{ pre := {sec(body[:i])}, body := {sec(tr.body)}, fin := {sec(tr.finalbody)} }}"


def async_connect_shape():
    fn = find_function(T.parse(MAN), f"{CLS}.async_connect")
    body = [s for s in _strip_doc(fn.body) if not _is_log(s)]
    got = [_u(s) for s in body]
    if len(body) != 4 or got[0] != "spa_descriptors = await self.async_locate_spas(spa_address, spa_identifier)" \
            or got[1] != "assert spa_descriptors is not None" or not isinstance(body[2], ast.If) \
            or _u(body[2].test) != "len(spa_descriptors) == 0" or body[2].orelse \
            or got[3] != "return await self.async_connect_to_spa(spa_descriptors[0])":
        raise Untranslatable("async_connect: shape")
    inner = body[2].body
    e = _emit_of(inner[0], "self._handle_event")
    if len(inner) != 2 or not e or _u(inner[1]) != "return None":
        raise Untranslatable("async_connect: not-found branch")
    return e


# ------------------------------------------------------------------------------------------------ the spa's events
def _events_in(node):
    out = []
    for n in ast.walk(node):
        if isinstance(n, ast.Call) and _u(n.func) == "self._event_handler" and n.args and _enum_ref(n.args[0], "GeckoSpaEvent"):
            out.append((n.lineno, n.col_offset, _enum_ref(n.args[0], "GeckoSpaEvent")))
    return [e for _, _, e in sorted(out)]


def connect_paths():
    """walk the top level of `_connect`: an awaited event is a step; an `if`/`except` body that raises one event and returns is a failure exit"""
    fn = find_function(T.parse("async_spa.py"), "GeckoAsyncSpa._connect")
    steps, fails = [], []

    def exit_of(stmts, where):
        evs = [e for st in stmts for e in _events_in(st)]
        if len(evs) != 1 or not isinstance(stmts[-1], ast.Return) or stmts[-1].value is not None:
            raise Untranslatable(f"_connect: {where}: an exit that does not raise exactly one event and return")
        return evs[0]
    def uses_protocol(node):
        """an awaited call that dereferences self._protocol (`await self._protocol.get(..)`, `await self.struct.get(self._protocol, ..)`)"""
        for n in ast.walk(node):
            if isinstance(n, ast.Await) and isinstance(n.value, ast.Call) and "self._protocol" in _u(n.value) \
                    and (_u(n.value.func).startswith("self._protocol.") or any(_u(a) == "self._protocol" for a in n.value.args)):
                return True
        return False
    for st in fn.body:
        e = _emit_of(st, "self._event_handler")
        if e:
            steps.append(f".ev .{e}")
        elif _u(st) == "self._is_connected = True":
            steps.append(".setConnected")
        elif _u(st) == "self._protocol = _protocol":
            steps.append(".openProtocol")
        elif isinstance(st, ast.If) and _u(st.test) == "self._disconnected" and not st.orelse and not _events_in(st) \
                and isinstance(st.body[-1], ast.Return) and st.body[-1].value is None:
            steps.append(".checkAlive")
        elif isinstance(st, ast.If) and _events_in(st):
            if st.orelse:
                raise Untranslatable("_connect: event under if/else")
            if uses_protocol(st.test):
                steps.append(".useProtocol")
            fails.append(steps + [f".ev .{exit_of(st.body, 'if')}"])
        elif isinstance(st, ast.Try) and _events_in(st):
            if _events_in(ast.Module(body=st.body, type_ignores=[])) or st.orelse or st.finalbody or len(st.handlers) != 1:
                raise Untranslatable("_connect: try with events outside its single handler")
            fails.append(steps + [f".ev .{exit_of(st.handlers[0].body, 'except')}"])
        elif _events_in(st):
            raise Untranslatable(f"_connect: event raised inside `{type(st).__name__}`")
        elif isinstance(st, ast.Return):
            raise Untranslatable("_connect: top-level return")
        elif uses_protocol(st):
            if not isinstance(st, (ast.Assign, ast.Expr)):
                raise Untranslatable(f"_connect: protocol use inside `{type(st).__name__}`")
            steps.append(".useProtocol")
    if steps.count(".openProtocol") != 1 or ".useProtocol" in steps[:steps.index(".openProtocol")]:
        raise Untranslatable("_connect: the protocol is not opened exactly once before its first use")
    if ".setConnected" not in steps or not steps[-1].startswith(".ev"):
        raise Untranslatable("_connect: does not set _is_connected before a final event")
    w = find_function(T.parse("async_spa.py"), "GeckoAsyncSpa.connect")
    b = _strip_doc(w.body)
    if not (len(b) == 1 and isinstance(b[0], ast.Try) and [_u(x) for x in b[0].body] == ["await self._connect()"] and len(b[0].handlers) == 1
            and isinstance(b[0].handlers[0].body[-1], ast.Raise) and b[0].handlers[0].body[-1].exc is None and not b[0].finalbody):
        raise Untranslatable("GeckoAsyncSpa.connect: not a log-and-reraise wrapper around _connect")
    return steps, fails


def runtime_events():
    tree = T.parse("async_spa.py")
    cls = find_function(tree, "GeckoAsyncSpa")
    seen = []
    for fn in cls.body:
        if isinstance(fn, (ast.FunctionDef, ast.AsyncFunctionDef)) and fn.name not in ("_connect", "disconnect"):
            for e in _events_in(fn):
                if e not in seen:
                    seen.append(e)
    ping = find_function(tree, "GeckoAsyncSpa._ping_loop")
    miss = None
    for n in ast.walk(ping):
        if isinstance(n, ast.If) and _u(n.test) == "ping_handler is not None":
            miss = _events_in(ast.Module(body=n.orelse, type_ignores=[]))
            if _events_in(ast.Module(body=n.body, type_ignores=[])) != ["RUNNING_PING_RECEIVED"]:
                raise Untranslatable("_ping_loop: success branch")
    if not miss:
        raise Untranslatable("_ping_loop: no miss branch")
    rf = _events_in(find_function(tree, "GeckoAsyncSpa._async_on_rferr"))
    if not rf:
        raise Untranslatable("_async_on_rferr: no events")
    wc = find_function(tree, "GeckoAsyncSpa.async_get_watercare")
    wcf = _events_in(wc)
    first = _strip_doc(wc.body)[0]
    if len(wcf) != 1 or not (isinstance(first, ast.If) and _u(first.test) == "not self.is_connected" and isinstance(first.body[-1], ast.Return)):
        raise Untranslatable("async_get_watercare: expected the not-connected early return and exactly one failure event")
    return seen, miss, rf, wcf[0]


def initial_state():
    fn = find_function(T.parse(MAN), f"{CLS}.__init__")
    want_none = {"self._spa_descriptors", "self._facade", "self._spa", "self._status_sensor", "self._reconnect_button", "self._ping_sensor",
                 "self._radio_sensor", "self._channel_sensor"}
    st0 = None
    for st in fn.body:
        tgt = _u(st.target) if isinstance(st, ast.AnnAssign) else (_u(st.targets[0]) if isinstance(st, ast.Assign) else None)
        if tgt in want_none:
            if _u(st.value) != "None":
                raise Untranslatable(f"__init__: {tgt} does not start as None")
            want_none.discard(tgt)
        if tgt == "self._spa_state":
            st0 = _enum_ref(st.value, "GeckoSpaState")
    if want_none or not st0:
        raise Untranslatable(f"__init__: missing initialisation of {sorted(want_none)} / _spa_state")
    return st0


def gen_table():
    prologue, branches = handle_event_parts()
    check_status_sensor()
    steps, fails = connect_paths()
    rt, miss, rf, wcf = runtime_events()
    lst = lambda xs: "[" + ", ".join(xs) + "]"  # noqa
    o = [T.HEADER, "import GeckoModel.Model.LifecycleVocab", "namespace GeckoModel.Lifecycle\n",
         "/-- async_spa_manager.py / async_spa.py as data (see Model/LifecycleVocab.lean for the vocabulary) -/",
         "def table : Table where",
         f"  prologue := {lst(prologue)}",
         "  branches := [\n" + ",\n".join(branches) + "]",
         "  touchBeforeDeliver := true",
         f"  needs := {lst(needs())}",
         "  resetProg := [\n" + ",\n".join(reset_prog()) + "]",
         f"  disconnectProg := {lst(disconnect_prog())}",
         f"  locateProg := {phase_prog('async_locate_spas', 'self._spa_descriptors')}",
         f"  connectProg := {phase_prog('async_connect_to_spa', 'self._facade')}",
         f"  notFound := .{async_connect_shape()}",
         f"  connectOk := {lst(steps)}",
         "  connectFail := [\n" + ",\n".join("    " + lst(f) for f in fails) + "]",
         f"  runtimeEvents := {lst('.' + e for e in rt)}",
         f"  pingMiss := {lst('.' + e for e in miss)}",
         f"  rfErr := {lst('.' + e for e in rf)}",
         f"  wcFail := .{wcf}",
         f"  initialState := .{initial_state()}",
         "\nend GeckoModel.Lifecycle\n"]
    return "\n".join(o)


def gen_reach():
    """closure of the initial manager states under the enabled calls, computed by the Lean model itself
    (Driver/C08Reach.lean) from the regenerated table; cached on a hash of everything it depends on"""
    import hashlib
    import subprocess
    import common
    enums, table = gen_enums(), gen_table()
    common.write_if_changed(T.GEN / "LifecycleEnums.lean", enums)
    common.write_if_changed(T.GEN / "LifecycleTable.lean", table)
    deps = [enums, table] + [(common.LEAN / rel).read_text() for rel in
                             ("GeckoModel/Model/LifecycleVocab.lean", "GeckoModel/Model/Lifecycle.lean", "Driver/C08Reach.lean")]
    tag = hashlib.sha1("\x00".join(deps).encode()).hexdigest()[:16]
    out = T.GEN / "LifecycleReach.lean"
    if out.exists() and f"-- source-hash: {tag}\n" in out.read_text()[:400]:
        return out.read_text()
    ok, log, _ = common.lake_build(["GeckoModel.Generated.LifecycleTable", "GeckoModel.Model.Lifecycle"])
    if not ok:
        raise Untranslatable("the lifecycle model does not build against the regenerated table: " + log[-300:])
    with common.BuildLock(shared=True):
        p = subprocess.run(["lake", "env", "lean", "--run", "Driver/C08Reach.lean", tag], cwd=common.LEAN, capture_output=True, text=True, timeout=900)
    if p.returncode != 0 or "def reachSucc" not in p.stdout:
        raise Untranslatable("reach-set generator failed: " + (p.stderr or p.stdout)[-300:])
    return p.stdout


GENERATORS = {"LifecycleEnums": gen_enums, "LifecycleTable": gen_table, "LifecycleReach": gen_reach}
