"""Writes MANIFEST.json from the table below (one place to keep levels / notes / not_applicable current)."""
import json
from pathlib import Path

VERIF = Path(__file__).resolve().parent.parent
BASELINE = "cd /repo && /venv/bin/python -m pytest -ra -q -p no:cacheprovider --timeout=900 --continue-on-collection-errors"

import importlib
import sys
sys.path.insert(0, str(VERIF / "harness"))

CLAIMED = {}
NOT_YET = {}
for _f in sorted((VERIF / "harness" / "props").glob("c*.py")):
    _m = importlib.import_module("props." + _f.stem)
    if hasattr(_m, "MANIFEST"):
        CLAIMED[_f.stem.upper()] = _m.MANIFEST

ALL = [f"C{i:02d}" for i in range(1, 21)]


def main():
    checks = []
    for pid in ALL:
        if pid not in CLAIMED:
            continue
        c = CLAIMED[pid]
        checks.append({
            "property_id": pid,
            "quick_cmd": f"./check {pid} --tier quick",
            "thorough_cmd": f"./check {pid} --tier thorough",
            "evidence_file": f"/verif/evidence/{pid}.json",
            "replay_cmd_template": f"./check {pid} --replay {{path}}",
            "engine": "lean4-model+correspondence",
            "level_claimed": {"category": c.get("category", "proof"), "text": c["text"], "design_ref": "DESIGN.md section " + c["design"]},
            "level_note": c["note"],
            "technique": c["technique"],
        })
    na = [{"property_id": pid, "reason": NOT_YET.get(pid, "no check built yet in this session (the Lean model and correspondence for it are planned in DESIGN.md section 5 but not implemented); not claimed")}
          for pid in ALL if pid not in CLAIMED]
    m = {
        "version": 1,
        "setup_cmd": "./setup.sh",
        "hooks": {"guard": "GECKOLIB_VERIF", "enable": "no source hooks are needed: the harness wraps the library from outside (virtual event loop, fake transports, patched clock); GECKOLIB_VERIF=1 is set by the harness but read by nothing in /repo",
                  "baseline_off_cmd": BASELINE, "source_commits": [], "add_only": True},
        "engines": [{"name": "lean4-model+correspondence", "path": "/verif/check",
                     "serves_properties": [c["property_id"] for c in checks],
                     "kind_free_text": "Lean 4 theorems over models regenerated from / differentially tied to /repo's source; failing-input search on the real code"}],
        "checks": checks,
        "not_applicable": na,
        "notes": "See DESIGN.md. ./check <id> exits 2 (not 1) when the tooling itself fails.",
    }
    (VERIF / "MANIFEST.json").write_text(json.dumps(m, indent=1) + "\n")


if __name__ == "__main__":
    main()
