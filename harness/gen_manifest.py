"""Writes MANIFEST.json from the table below (one place to keep levels / notes / not_applicable current)."""
import json
from pathlib import Path

VERIF = Path(__file__).resolve().parent.parent
BASELINE = "cd /repo && /venv/bin/python -m pytest -ra -q -p no:cacheprovider --timeout=900 --continue-on-collection-errors"

CLAIMED = {
    "C16": dict(
        text="Machine-checked Lean 4 proof, for every call sequence of any length and interleaving, that both counter implementations "
             "(translated statement-by-statement from the source on every run) hand out 1+k%191 / 192+k%64 (closed form), stay in range, "
             "are successors in their own cycle, and that every call site picks the right counter (decide over the regenerated call-site table). "
             "Tie: translator + full differential sweep of every reachable counter state against both real objects; wire clause checked on datagrams "
             "built by the real clients.",
        note="Trusted: Lean kernel; axioms propext/Classical.choice/Quot.sound only; harness/translate.py+py2lean.py (cross-checked by the sweep); "
             "atomicity of threading.Lock (with-lock is checked syntactically; real-thread hammer in thorough tier is a test, not a proof).",
        technique="Lean 4 induction over call sequences on source-translated definitions + decide over generated call-site table",
        design="5/C16"),
}

CLAIMED["C18"] = dict(
    text="The quantifier is a finite table (164 modules, ~20 500 items): the kernel evaluates the decidable predicate PackModule.OK "
         "(item addressability Item.WF, key resolution, module naming, refresh window) over the WHOLE table regenerated from the working tree "
         "(decide +kernel, one obligation per module, assembled into `all_modules_ok`), proves the three known ill-formed items really are ill-formed, "
         "and proves every module pinned at the audited commit is present field-for-field (`layout_immutable`). Search: independent Python "
         "re-computation of well-formedness, pin diff item by item, FILES-reply naming for all 895 combinations.",
    note="Trusted: Lean kernel; harness/packs.py extraction by import (what the library sees after accessor __init__) + ast check for duplicate dict keys; "
         "pins/layout-236b7b1.json.gz is the layout at the audited commit. The generator input SpaPackStruct.xml is absent: well-formedness is judged on the shipped Python only.",
    technique="Lean 4 kernel evaluation (decide +kernel) of decidable predicates over the complete regenerated tables",
    design="5/C18")
CLAIMED["C02"] = dict(
    text="Lean 4 theorems for every item satisfying the decidable Item.WF (all shipped items except the 3 of finding D9, by C18's whole-table evaluation), "
         "every 1024-byte block and every domain value: write-then-read returns the value (read_after_write + per-kind corollaries), only bits of the item's "
         "own field change (write_touches_only_own_field), items with a disjoint field keep their value (other_items_unchanged), read-only items refuse, "
         "string forms, and the blocking/awaitable paths emit identical writes. The shift/mask/merge arithmetic is translated from accessor.py on every run; "
         "type dispatch / labels / time format are a hand model tied by a differential correspondence on the real accessors (thorough: all 20 505 items).",
    note="Trusted: Lean kernel; translator for the three arithmetic expressions; the correspondence harness; 'applied to the block' = the spa stores struct.pack of the "
         "value at pos (as the bundled simulator does). Temperature items' unit conversion is C14.",
    technique="Lean 4 bit-level proofs (Nat.testBit) over source-translated merge arithmetic + differential correspondence of the hand model on all shipped items",
    design="5/C02")

NOT_YET = {}

ALL = [f"C{i:02d}" for i in range(1, 21)]


def main():
    checks = []
    for pid in ALL:
        if pid not in CLAIMED:
            continue
        c = CLAIMED[pid]
        checks.append({
            "property_id": pid,
            "quick_cmd": f"./check {pid} --tier quick",
            "thorough_cmd": f"./check {pid} --tier thorough",
            "evidence_file": f"/verif/evidence/{pid}.json",
            "replay_cmd_template": f"./check {pid} --replay {{path}}",
            "engine": "lean4-model+correspondence",
            "level_claimed": {"category": c.get("category", "proof"), "text": c["text"], "design_ref": "DESIGN.md section " + c["design"]},
            "level_note": c["note"],
            "technique": c["technique"],
        })
    na = [{"property_id": pid, "reason": NOT_YET.get(pid, "no check built yet in this session (the Lean model and correspondence for it are planned in DESIGN.md section 5 but not implemented); not claimed")}
          for pid in ALL if pid not in CLAIMED]
    m = {
        "version": 1,
        "setup_cmd": "./setup.sh",
        "hooks": {"guard": "GECKOLIB_VERIF", "enable": "no source hooks are needed: the harness wraps the library from outside (virtual event loop, fake transports, patched clock); GECKOLIB_VERIF=1 is set by the harness but read by nothing in /repo",
                  "baseline_off_cmd": BASELINE, "source_commits": [], "add_only": True},
        "engines": [{"name": "lean4-model+correspondence", "path": "/verif/check",
                     "serves_properties": [c["property_id"] for c in checks],
                     "kind_free_text": "Lean 4 theorems over models regenerated from / differentially tied to /repo's source; failing-input search on the real code"}],
        "checks": checks,
        "not_applicable": na,
        "notes": "See DESIGN.md. ./check <id> exits 2 (not 1) when the tooling itself fails.",
    }
    (VERIF / "MANIFEST.json").write_text(json.dumps(m, indent=1) + "\n")


if __name__ == "__main__":
    main()
