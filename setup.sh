#!/bin/sh
# Build the framework from files on disk only (offline): regenerate the Lean definitions that are translated
# from /repo's working tree, then build every Lean module (models, proofs, property files).
set -e
cd "$(dirname "$0")"
/venv/bin/python harness/translate.py
cd lean
lake build 2>&1 | tail -40
